"""Table of the property checks: which lab test binaries decide which property, case counts per tier."""

BUBBLE = "Go 1.26.8 runtime and testing/synctest semantics (fake clock advances only when every goroutine of the bubble is durably blocked; zero scheduling latency)"
RAPID = "pgregory.net/rapid v1.3.0 generators and shrinking; all randomness derives from VERIF_SEED"
SAMPLED = "select-case choice and goroutine wake-up order at one virtual instant are sampled, not enumerated"


def U(pkg, test, quick, thorough, **kw):
    d = {"pkg": pkg, "test": test, "quick": quick, "thorough": thorough}
    d.update(kw)
    return d


def q(cases, shards=1, **kw):
    d = {"cases": cases, "shards": shards}
    d.update(kw)
    return d


PROPS = {
    "C04": {
        "level": "exploration",
        "units": [U("limitl", "TestC04", q(40000), q(400000, 16))],
        "assumptions": [BUBBLE, RAPID, "receive time equals send time for an always-ready consumer inside the bubble; for a slow consumer the window bound is widened by the output capacity (DESIGN 4/C04)"],
    },
    "C12": {
        "level": "exploration",
        "hang_is_violation": True,
        "crash_is_violation": True,
        "units": [U("limitl", "TestC12", q(40000), q(400000, 16))],
        "assumptions": [BUBBLE, RAPID, "timing clauses are asserted for an always-ready consumer, and, with all data up-front, for a consumer that pauses a fixed d before every receive with Q*d <= I (bound floor(i/Q)*I + (min(Q,N)+1)*d)"],
    },
    "C13": {
        "level": "exploration",
        "units": [
            U("pure", "TestC13", q(300000), q(4000000, 8)),
            U("pure", "TestC13Conc", q(1500), q(20000, 2)),
            U("pure", "FuzzC13", None, {"fuzztime": 90}, kind="fuzz", fuzz="FuzzC13", fuzz_fields=["interval_ns", "quantity", "minimum_ns"]),
        ],
        "assumptions": [RAPID, "oracle arithmetic is math/big (exact)", "native fuzzing (thorough tier only) is coverage guided and not reproducible from the seed; its saved failing input is replayed through the same oracle"],
    },
    "C14": {
        "level": "exploration",
        "units": [U("pure", "TestC14", q(150000), q(1500000, 8)), U("pure", "TestC14Seq", q(30000), q(300000, 4))],
        "assumptions": [RAPID, "stays where dividend * priority < 2^53 (exactly representable products), as the property states", "Rate tolerance n/2 + n*2^-16 against exact rationals"],
    },
    "C18": {
        "level": "exploration",
        "units": [U("pure", "TestC18", q(12000), q(40000, 16, timeout=3000))],
        "assumptions": [RAPID, "'the divider gives' is evaluated by calling the library's Fair/Rate on each subset with a fresh map; absent entry = 0"],
    },
    "C03": {
        "level": "exploration",
        "hang_is_violation": True,
        "units": [U("joinl", "TestC03", q(40000), q(300000, 16)), U("joinl", "TestC03Elem", q(3000), q(30000, 2))],
        "assumptions": [BUBBLE, RAPID, SAMPLED],
    },
    "C08": {
        "level": "exploration",
        "units": [U("joinl", "TestC08", q(40000), q(300000, 16))],
        "assumptions": [BUBBLE, RAPID, SAMPLED, "every delivered slice is kept referenced to the end of the run, so overlapping address ranges in copy mode cannot come from garbage collection", "v1 'never touched again' is observed for 3x Timeout + 1us of virtual time after Stop returned while the producer keeps pushing"],
    },
    "C09": {
        "level": "exploration",
        "units": [U("joinl", "TestC09", q(40000), q(300000, 16))],
        "assumptions": [BUBBLE, RAPID, SAMPLED, "lower bound anchored at the write-start of the last element of the previous slice (<= the moment the discipline reset its timer)"],
    },
    "C10": {
        "level": "exploration",
        "hang_is_violation": True,
        "units": [U("joinl", "TestC10", q(40000), q(300000, 16))],
        "assumptions": [BUBBLE, RAPID, SAMPLED, "scheduling latency is 0 inside the bubble: the algorithmic bound is verified, not the OS timer"],
    },
    "C11": {
        "level": "exploration",
        "units": [U("joinl", "TestC11", q(40000), q(300000, 16))],
        "assumptions": [BUBBLE, RAPID, SAMPLED],
    },
    "C16": {
        "level": "fault_enumeration",
        "hang_is_violation": True,
        "crash_is_violation": True,
        "units": [U("joinl", "TestC16", q(30000), q(200000, 8)), U("prio", "TestC16", q(6000), q(50000, 8))],
        "assumptions": [BUBBLE, RAPID, SAMPLED],
    },
    "C06": {
        "level": "exploration",
        "hang_is_violation": True,
        "units": [U("prio", "TestC06", q(8000), q(60000, 16))],
        "assumptions": [BUBBLE, RAPID, SAMPLED, "liveness is checked as bounded liveness on the virtual clock: a state counts as quiescent after two consecutive settle quanta without output", "known findings F4 and F5 (KNOWN_FINDINGS.txt) are recognised by their class and excluded from the search (counted under inconclusive_cases)"],
    },
    "C01": {
        "level": "exploration",
        "units": [U("prio", "TestC01", q(8000), q(60000, 16))],
        "assumptions": [BUBBLE, RAPID, SAMPLED, "the harness is the only consumer: it counts an item as in processing from the completion of its receive until just before it issues the release, which never exceeds the discipline's own count"],
    },
    "C02": {
        "level": "exploration",
        "units": [U("prio", "TestC02", q(8000), q(60000, 16)), U("prio", "TestC02Elem", q(2000), q(20000, 2))],
        "assumptions": [BUBBLE, RAPID, SAMPLED, "one producer per input channel, so the order of writing is a total order per channel"],
    },
    "C05": {
        "level": "exploration",
        "units": [U("prio", "TestC05", q(8000), q(60000, 16))],
        "assumptions": [BUBBLE, RAPID, SAMPLED, "saturation = every input buffered with capacity = prefill >= H + releases + 1 (all data sits in the channel: no poll ever finds an input empty); or, v1 with an unbuffered output and a consumer that waits for quiescence after every receive, capacity 1..10 with the producer blocked on the full buffer (one read per quiescent interval, the buffer is refilled before the next read)", "replacing the channel of a configured priority by another full channel (v1 AddInput) leaves the configured priorities, hence the shares, unchanged", "share = the configured divider applied to (all priorities sorted high to low, H), as the property defines it"],
    },
    "C07": {
        "level": "exploration",
        "hang_is_violation": True,
        "crash_is_violation": True,
        "units": [U("prio", "TestC07", q(8000), q(60000, 16))],
        "assumptions": [BUBBLE, RAPID, SAMPLED, "'promptly' = at the next quiescent point of the virtual clock"],
    },
    "C15": {
        "level": "fault_enumeration",
        "hang_is_violation": True,
        "units": [U("prio", "TestC15", q(8000), q(60000, 16))],
        "assumptions": [BUBBLE, RAPID, SAMPLED, "v1 validates only divisions made for a round (non-nil map); its strategic division with a nil map is outside the statement", "items sitting in the output channel when the fault is injected may still be received (read with len() from the discipline's goroutine inside the divider call)"],
    },
    "C17": {
        "level": "exploration",
        "hang_is_violation": True,
        "units": [U("prio", "TestC17", q(6000), q(50000, 16))],
        "assumptions": [BUBBLE, RAPID, SAMPLED, "the script never has two AddInput/RemoveInput calls for one priority outstanding at once (their order would be undefined)", "reads of a removed channel are bounded from above at the return of the call (the producer's counter may lag by one) and exact at the end"],
    },
    "C19": {
        "level": "exploration",
        "units": [
            U("limitl", "TestC19", q(8000), q(60000, 4)),
            U("joinl", "TestC19", q(8000), q(80000, 6)),
            U("prio", "TestC19", q(6000), q(60000, 6)),
        ],
        "assumptions": [BUBBLE, RAPID, "'started by the discipline' = goroutines whose creation site is a function of the module under test (runtime.Stack 'created by' line)", "in addition synctest fails the case when the bubble's root returns while goroutines of the bubble are still blocked"],
    },
    "C20": {
        "level": "exploration",
        "units": [
            U("racel", "TestC20", q(600, timeout=900), q(4000, 8, timeout=3000), race=True),
            U("prio", "TestC20", q(1500), q(12000, 4), race=True),
            U("joinl", "TestC20", q(3000), q(20000, 2), race=True),
            U("limitl", "TestC20", q(3000), q(20000, 2), race=True),
            U("pure", "TestC20", q(400), q(6000, 2), race=True),
        ],
        "assumptions": ["Go race detector (happens-before based; reports only races in executed schedules)", RAPID, "free-running scenarios are not pinned by the seed (the script is, the interleaving is not); a reported race is confirmed by re-running its script up to 10 (race lab: 25) times; a report with a library frame, or on the handler logs that are read only after graceful termination, counts without recurrence", "inside bubbles synctest.Wait adds happens-before edges between harness and discipline, which is why the real-time scenarios exist", "the pure functions are called concurrently only with arguments no other goroutine touches (sharing a slice the helpers sort would be the caller's race)"],
    },
}
