"""Table of the property checks: which lab test binaries decide which property, case counts per tier."""

BUBBLE = "Go 1.26.8 runtime and testing/synctest semantics (fake clock advances only when every goroutine of the bubble is durably blocked; zero scheduling latency)"
RAPID = "pgregory.net/rapid v1.3.0 generators and shrinking; all randomness derives from VERIF_SEED"
SAMPLED = "select-case choice and goroutine wake-up order at one virtual instant are sampled, not enumerated"


def U(pkg, test, quick, thorough, **kw):
    d = {"pkg": pkg, "test": test, "quick": quick, "thorough": thorough}
    d.update(kw)
    return d


def q(cases, shards=1, **kw):
    d = {"cases": cases, "shards": shards}
    d.update(kw)
    return d


PROPS = {
    "C04": {
        "level": "exploration",
        "units": [U("limitl", "TestC04", q(40000), q(400000, 16))],
        "assumptions": [BUBBLE, RAPID, "receive time equals send time for an always-ready consumer inside the bubble; for a slow consumer the window bound is widened by the output capacity (DESIGN 4/C04)"],
    },
    "C12": {
        "level": "exploration",
        "hang_is_violation": True,
        "units": [U("limitl", "TestC12", q(40000), q(400000, 16))],
        "assumptions": [BUBBLE, RAPID, "timing clauses are asserted only for an always-ready consumer"],
    },
    "C13": {
        "level": "exploration",
        "units": [
            U("pure", "TestC13", q(300000), q(4000000, 8)),
            U("pure", "FuzzC13", None, {"fuzztime": 90}, kind="fuzz", fuzz="FuzzC13", fuzz_fields=["interval_ns", "quantity", "minimum_ns"]),
        ],
        "assumptions": [RAPID, "oracle arithmetic is math/big (exact)", "native fuzzing (thorough tier only) is coverage guided and not reproducible from the seed; its saved failing input is replayed through the same oracle"],
    },
    "C14": {
        "level": "exploration",
        "units": [U("pure", "TestC14", q(150000), q(1500000, 8))],
        "assumptions": [RAPID, "stays where dividend * priority < 2^53 (exactly representable products), as the property states", "Rate tolerance n/2 + n*2^-16 against exact rationals"],
    },
    "C18": {
        "level": "exploration",
        "units": [U("pure", "TestC18", q(12000), q(40000, 16, timeout=3000))],
        "assumptions": [RAPID, "'the divider gives' is evaluated by calling the library's Fair/Rate on each subset with a fresh map; absent entry = 0"],
    },
}
