"""Per-property level text for MANIFEST.json."""

def T(text, note, technique, ref):
    return {"text": text, "note": note, "technique": technique, "design_ref": ref}

BUB = "Trusted: Go 1.26.8 runtime + testing/synctest (fake clock, durable blocking), rapid v1.3.0, the harness oracle. "

TEXT = {
    "C04": T("Generated producer/consumer scripts run against the real limit discipline on a fake clock; every receive time is exact, so the cumulative and the sliding-window bound are checked as integer inequalities over all pairs of receives. No counter-example among the generated cases is the claim; not a proof.",
             BUB + "For a slow consumer the window bound is widened by the capacity of the output channel (sound, see DESIGN 4/C04). Interleavings at one virtual instant are sampled.",
             "property-based testing (rapid) of generated timing scripts on a synctest fake clock; exact-time inequality oracle", "4/C04"),
    "C12": T("Same scripts; oracle = sequence equality, closure, and the four 'no extra throttling' inequalities (no pause below Quantity, up-front data by floor(i/Q)*I, d_i <= max(avail_i, d_{i-Q}+I), closure within one Interval).",
             BUB + "Timing clauses asserted for an always-ready consumer and, with all data up-front, for a steady consumer faster than the limit (fixed pause d per element, Q*d <= I).",
             "property-based testing (rapid) on a synctest fake clock; reference-sequence and timing-bound oracle", "4/C12"),
    "C13": T("Full-range generated (Interval, Quantity, minimum) triples with boundary construction around floor(I/Q)==minimum and products near 2^64, checked against an exact math/big oracle of the statement; thorough adds a coverage-guided native fuzz campaign on the same oracle.",
             "Trusted: math/big, rapid, the Go fuzzer. The fuzz campaign is not reproducible from the seed; its failing input is.",
             "property-based testing (rapid) + native go fuzzing against a math/big oracle", "4/C13"),
    "C14": T("Generated divider calls (both dividers, both module versions) against conservation / untouched-keys / order / tolerance oracles in exact arithmetic and a v1-v2 differential.",
             "Trusted: math/big, rapid. Domain limited to exactly representable products as the property states.",
             "property-based testing (rapid) with exact-arithmetic and differential oracles", "4/C14"),
    "C18": T("Generated (priorities, divider, q, max, limits) against a bit-mask brute force of the subset definition, linear scans for the pick-up functions, a v1-v2 differential and the v2 constructor.",
             "Trusted: rapid; 'the divider gives' = calling the library divider on each subset.",
             "property-based testing (rapid) against a brute-force reference", "4/C18"),
}
TEXT.update({
    "C03": T("Generated producer/consumer scripts for v1 join, v2 join and v2 unite on a fake clock with timeouts firing between, at and after arrivals; every element carries its index, so the concatenation of the outputs is compared element by element with what was written and the size rules are checked per slice.",
             BUB + "Select-case choice at one virtual instant is sampled.",
             "property-based testing (rapid) of generated scripts on a synctest fake clock; reference-stream oracle", "4/C03"),
    "C08": T("Join/unite scripts with consumers that keep every slice, hold them for up to 3x Timeout under producer pressure, scribble into copy-mode slices, and v1 Stop/cancel between delivery and release; snapshots at delivery are compared with the contents at release / end of run / after Stop and the address ranges of copy-mode outputs must be disjoint.",
             BUB + "All delivered slices stay referenced, so address reuse by the GC is excluded. The same scripts run under -race in C20.",
             "property-based testing (rapid) on a fake clock; snapshot/aliasing oracle", "4/C08"),
    "C09": T("Without a timeout the outputs must equal the greedy reference batching computed from the script; with a timeout every non-maximal non-final slice must arrive at least Timeout after the write-start of the last element of the previous slice (exact virtual nanoseconds).",
             BUB + "Lower bound anchored at the producer's write-start (<= the discipline's timer reset).",
             "property-based testing (rapid) on a fake clock; greedy reference model + exact lower-bound oracle", "4/C09"),
    "C10": T("Timeout>0: (receive - accept) * d <= Timeout * (d+1) for every element of a slice the consumer was ready for (always ready, or already blocked in the receive before the first element of the slice was offered), in integers on the fake clock (latency is exactly 0, so the bound is tight: a pause or tick period off by 1 ns fails).",
             BUB + "Verifies the algorithmic bound, not the OS timer.",
             "property-based testing (rapid) on a fake clock; exact upper-bound oracle", "4/C10"),
    "C11": T("Unite scripts with slice lengths from {0,1,2,3,J-1,J,J+1,2J} and timeouts: output boundaries must be input boundaries, order preserved, oversize inputs delivered alone.",
             BUB, "property-based testing (rapid) on a fake clock; boundary-alignment oracle", "4/C11"),
    "C01": T("Generated operation scripts executed step by step against the unmodified discipline goroutines; the script goroutine is the only consumer and decides every receive and release, drains the output completely at quiescent points without releasing, and asserts received-minus-release-issued <= H after every receive (simplified: concurrent Handle calls). Both versions, plain and simplified, four dividers, mixed buffered/unbuffered inputs, v1 add/remove.",
             BUB + "Harness count <= discipline count at every instant (DESIGN 3.1), so an alarm is a real over-commit.",
             "stateful property-based testing (rapid scripts) with owned schedule (synctest); invariant after every step", "4/C01"),
    "C02": T("Items are (registration priority, channel generation, sequence number); tags, per-channel order, duplicates, inventions and, at normal termination, losses are compared exactly.",
             BUB, "stateful property-based testing (rapid scripts) with owned schedule; identity-tracking oracle", "4/C02"),
    "C05": T("Saturation scripts (all data sits in the channels, or - v1, unbuffered output, one receive per quiescent interval - small buffers kept full by blocked producers; v1 channel replacement by AddInput) with arbitrary release orders/groupings: per-priority in-flight never exceeds divider(all priorities, H) and equals it at every quiescent point with no release outstanding.",
             BUB, "stateful property-based testing (rapid scripts) with owned schedule; share-model oracle", "4/C05"),
    "C06": T("Bounded liveness on the owned clock: at quiescence with nothing in flight and data waiting something must have been delivered; a lone active priority gets all handlers; one-at-a-time release delivers everything. Two genuine defects (F4, F5) are recorded as known findings and excluded by class.",
             BUB + "Unbounded 'eventually' is not decidable by testing; quiescence = two settle quanta without output.",
             "stateful property-based testing (rapid scripts) with owned clock and schedule; bounded-liveness oracle", "4/C06"),
    "C07": T("Termination observed implies all inputs closed and delivered and nothing unreleased (no Release panic, Err yields no error); conversely at a quiescent point where that holds the discipline has terminated. Releases and closes are withheld across time steps, inputs left open and silent, GracefulStop early/late.",
             BUB, "stateful property-based testing (rapid scripts) with owned clock and schedule; two-directional termination oracle", "4/C07"),
    "C15": T("A wrapping divider checks the arguments of every call and, per fault plan, corrupts one eligible call (call index drawn, enumerated in the thorough tier): New error values, no delivery beyond the output buffer after a round fault, ErrDividerBad on Err(), capacity, termination after release.",
             BUB + "Fault point = index among the divider calls the discipline validates.",
             "fault injection at generated/enumerated call indices inside property-based scripts", "4/C15"),
    "C16": T("Stop()/cancel inserted at drawn (thorough: every) script position of v1 plain, simplified and join runs: must return within bounded virtual time with no release, join output closed at that moment, nothing written afterwards, no Handle running, deliveries an ordered subsequence. A spinning goroutine is caught by a real-time watchdog and confirmed by replay.",
             BUB + "Ordering at one virtual instant (ns windows) is sampled only.",
             "fault injection (stop point) inside property-based scripts on an owned clock", "4/C16"),
    "C17": T("v1 scripts with add / replace / remove / re-add interleaved with traffic: reads of a removed or replaced channel stop at the return of the call, tags and order per channel, capacity across the history, everything read delivered once, GracefulStop completes.",
             BUB, "stateful property-based testing (rapid scripts) with owned schedule; read-counter and identity oracle", "4/C17"),
})
TEXT.update({
    "C19": T("After every kind of termination generated by the three labs (normal, graceful, Stop, cancel at arbitrary points, divider fault; all disciplines of both versions, handler goroutines of the simplified ones) the goroutine dump, taken at the first quiescent point after termination is observed and again at the end of the run, must contain no goroutine created by the module.",
             BUB + "Leak = goroutine whose 'created by' frame is in github.com/akramarenkov/cqos.",
             "property-based testing (rapid scripts) with a goroutine-dump oracle after generated termination paths", "4/C19"),
    "C20": T("Free-running real-time generated scenarios (producers, handlers, control calls, slice-keeping consumers, jitter) for every discipline, the bubble scripts of the three labs and concurrent calls of the pure functions (also compared with their sequential results), all built with -race; a race report is a violation, confirmed by re-running the script.",
             "Trusted: the Go race detector. Only executed interleavings are examined; real-time schedules are not reproducible from the seed.",
             "randomised concurrency stress under the race detector, scenarios generated by rapid", "4/C20"),
})

NOT_APPLICABLE = {}
