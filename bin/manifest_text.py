"""Per-property level text for MANIFEST.json."""

def T(text, note, technique, ref):
    return {"text": text, "note": note, "technique": technique, "design_ref": ref}

BUB = "Trusted: Go 1.26.8 runtime + testing/synctest (fake clock, durable blocking), rapid v1.3.0, the harness oracle. "

TEXT = {
    "C04": T("Generated producer/consumer scripts run against the real limit discipline on a fake clock; every receive time is exact, so the cumulative and the sliding-window bound are checked as integer inequalities over all pairs of receives. No counter-example among the generated cases is the claim; not a proof.",
             BUB + "For a slow consumer the window bound is widened by the capacity of the output channel (sound, see DESIGN 4/C04). Interleavings at one virtual instant are sampled.",
             "property-based testing (rapid) of generated timing scripts on a synctest fake clock; exact-time inequality oracle", "4/C04"),
    "C12": T("Same scripts; oracle = sequence equality, closure, and the four 'no extra throttling' inequalities (no pause below Quantity, up-front data by floor(i/Q)*I, d_i <= max(avail_i, d_{i-Q}+I), closure within one Interval).",
             BUB + "Timing clauses only asserted for an always-ready consumer.",
             "property-based testing (rapid) on a synctest fake clock; reference-sequence and timing-bound oracle", "4/C12"),
    "C13": T("Full-range generated (Interval, Quantity, minimum) triples with boundary construction around floor(I/Q)==minimum and products near 2^64, checked against an exact math/big oracle of the statement; thorough adds a coverage-guided native fuzz campaign on the same oracle.",
             "Trusted: math/big, rapid, the Go fuzzer. The fuzz campaign is not reproducible from the seed; its failing input is.",
             "property-based testing (rapid) + native go fuzzing against a math/big oracle", "4/C13"),
    "C14": T("Generated divider calls (both dividers, both module versions) against conservation / untouched-keys / order / tolerance oracles in exact arithmetic and a v1-v2 differential.",
             "Trusted: math/big, rapid. Domain limited to exactly representable products as the property states.",
             "property-based testing (rapid) with exact-arithmetic and differential oracles", "4/C14"),
    "C18": T("Generated (priorities, divider, q, max, limits) against a bit-mask brute force of the subset definition, linear scans for the pick-up functions, a v1-v2 differential and the v2 constructor.",
             "Trusted: rapid; 'the divider gives' = calling the library divider on each subset.",
             "property-based testing (rapid) against a brute-force reference", "4/C18"),
}

NOT_APPLICABLE = {}
