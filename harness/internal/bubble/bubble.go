// Package bubble runs one script execution inside a testing/synctest bubble, i.e. with
// a fake clock and the ability to wait until every goroutine is durably blocked.
package bubble

import (
	"bytes"
	"fmt"
	"os"
	"regexp"
	"runtime"
	"strconv"
	"strings"
	"sync/atomic"
	"testing"
	"testing/synctest"
	"time"
)

// Result of one bubble execution.
type Result struct {
	// Spin is set when the bubble did not finish within the real-time budget: some goroutine
	// never blocks (a busy loop), so the fake clock cannot advance and Wait never returns. The
	// bubble is abandoned (its goroutines keep running in the background).
	Spin bool
	// Deadlock is non-empty when synctest reported that all goroutines of the bubble
	// were blocked (including: root returned while goroutines remained).
	Deadlock string
	// Panic is a panic raised by the root function itself.
	Panic string
}

// CaseBudget is the real-time budget of one bubble (0 = none). A normal case takes
// milliseconds (the heaviest generated ones tens of milliseconds); the budget is four orders
// of magnitude above that and only ends cases in which a goroutine spins.
func CaseBudget() time.Duration {
	if v, err := strconv.Atoi(os.Getenv("VERIF_CASE_BUDGET_S")); err == nil {
		return time.Duration(v) * time.Second
	}
	return 20 * time.Second
}

var abandoned atomic.Int32

// Run executes f as the root goroutine of a fresh bubble, within the real-time budget.
func Run(t *testing.T, f func()) Result {
	return RunBudget(t, CaseBudget(), f)
}

// RunBudget is Run with an explicit budget.
func RunBudget(t *testing.T, budget time.Duration, f func()) Result {
	if budget <= 0 {
		return run(t, f)
	}
	done := make(chan Result, 1)
	go func() { done <- run(t, f) }()
	select {
	case r := <-done:
		return r
	case <-time.After(budget):
		if abandoned.Add(1) > 6 {
			// every abandoned bubble keeps a core busy: give up like the watchdog does
			fmt.Fprintf(os.Stderr, "VERIF-HANG more than 6 cases did not finish within their real-time budget\n")
			os.Exit(3)
		}
		return Result{Spin: true, Deadlock: fmt.Sprintf("the case did not finish within %s of real time: a goroutine never blocks (busy loop), the fake clock cannot advance", budget)}
	}
}

func run(t *testing.T, f func()) (res Result) {
	defer func() {
		if r := recover(); r != nil {
			res.Deadlock = fmt.Sprint(r)
		}
	}()
	synctest.Test(t, func(*testing.T) {
		defer func() {
			if r := recover(); r != nil {
				buf := make([]byte, 8192)
				buf = buf[:runtime.Stack(buf, false)]
				res.Panic = fmt.Sprintf("%v\n%s", r, buf)
			}
		}()
		f()
	})
	return res
}

// Wait blocks until every other goroutine of the bubble is durably blocked.
func Wait() { synctest.Wait() }

// Now returns the virtual time in nanoseconds since the bubble epoch.
func Now(epoch time.Time) int64 { return int64(time.Since(epoch)) }

var goroutineHeader = regexp.MustCompile(`(?m)^goroutine (\d+) `)

// LibGoroutines returns the ids and first lines of all goroutines in the process that
// were started by a function of the module under test.
func LibGoroutines() map[string]string {
	buf := make([]byte, 1<<16)
	for {
		n := runtime.Stack(buf, true)
		if n < len(buf) {
			buf = buf[:n]
			break
		}
		buf = make([]byte, 2*len(buf))
	}
	out := map[string]string{}
	if !bytes.Contains(buf, []byte("github.com/akramarenkov/cqos")) {
		return out
	}
	for _, g := range bytes.Split(buf, []byte("\n\n")) {
		s := string(g)
		// "started by the discipline" = created by a function of the module under test, or
		// executing code of the module without having been created by the harness (a callback
		// goroutine started on the module's behalf by time.AfterFunc, context.AfterFunc, ...)
		byLib := strings.Contains(s, "\ncreated by github.com/akramarenkov/cqos")
		inLib := strings.Contains(s, "github.com/akramarenkov/cqos") && !strings.Contains(s, "\ncreated by cqosverif/") && !strings.Contains(s, "testing/synctest.")
		if !byLib && !inLib {
			continue
		}
		m := goroutineHeader.FindStringSubmatch(s)
		if m == nil {
			continue
		}
		// keep the frames that belong to the module, for the report
		var frames []string
		for _, ln := range strings.Split(s, "\n") {
			if strings.Contains(ln, "github.com/akramarenkov/cqos") && !strings.HasPrefix(ln, "\t") {
				frames = append(frames, strings.TrimSpace(ln))
			}
		}
		out[m[1]] = strings.Join(frames, " <- ")
	}
	return out
}
