// Package bubble runs one script execution inside a testing/synctest bubble, i.e. with
// a fake clock and the ability to wait until every goroutine is durably blocked.
package bubble

import (
	"bytes"
	"fmt"
	"regexp"
	"runtime"
	"strings"
	"testing"
	"testing/synctest"
	"time"
)

// Result of one bubble execution.
type Result struct {
	// Deadlock is non-empty when synctest reported that all goroutines of the bubble
	// were blocked (including: root returned while goroutines remained).
	Deadlock string
	// Panic is a panic raised by the root function itself.
	Panic string
}

// Run executes f as the root goroutine of a fresh bubble.
func Run(t *testing.T, f func()) (res Result) {
	defer func() {
		if r := recover(); r != nil {
			res.Deadlock = fmt.Sprint(r)
		}
	}()
	synctest.Test(t, func(*testing.T) {
		defer func() {
			if r := recover(); r != nil {
				buf := make([]byte, 8192)
				buf = buf[:runtime.Stack(buf, false)]
				res.Panic = fmt.Sprintf("%v\n%s", r, buf)
			}
		}()
		f()
	})
	return res
}

// Wait blocks until every other goroutine of the bubble is durably blocked.
func Wait() { synctest.Wait() }

// Now returns the virtual time in nanoseconds since the bubble epoch.
func Now(epoch time.Time) int64 { return int64(time.Since(epoch)) }

var goroutineHeader = regexp.MustCompile(`(?m)^goroutine (\d+) `)

// LibGoroutines returns the ids and first lines of all goroutines in the process that
// were started by a function of the module under test.
func LibGoroutines() map[string]string {
	buf := make([]byte, 1<<16)
	for {
		n := runtime.Stack(buf, true)
		if n < len(buf) {
			buf = buf[:n]
			break
		}
		buf = make([]byte, 2*len(buf))
	}
	out := map[string]string{}
	if !bytes.Contains(buf, []byte("\ncreated by github.com/akramarenkov/cqos")) {
		return out
	}
	for _, g := range bytes.Split(buf, []byte("\n\n")) {
		s := string(g)
		// "started by the discipline" = created by a function of the module under test
		if !strings.Contains(s, "\ncreated by github.com/akramarenkov/cqos") {
			continue
		}
		m := goroutineHeader.FindStringSubmatch(s)
		if m == nil {
			continue
		}
		// keep the frames that belong to the module, for the report
		var frames []string
		for _, ln := range strings.Split(s, "\n") {
			if strings.Contains(ln, "github.com/akramarenkov/cqos") && !strings.HasPrefix(ln, "\t") {
				frames = append(frames, strings.TrimSpace(ln))
			}
		}
		out[m[1]] = strings.Join(frames, " <- ")
	}
	return out
}
