// Package evid is the common case runner of all labs: it draws scripts with rapid,
// executes them through a property oracle, classifies and counts the cases, writes
// the replay file of a failing case and the evidence fragment of the run.
//
// Environment (set by /verif/bin/check):
//
//	VERIF_OUT     directory for the fragments of this process (evidence.json,
//	              replay.json, current.json, hang.json)
//	VERIF_REPLAY  path of a script to execute instead of generating (no rapid)
//	VERIF_TIER    quick | thorough
//	VERIF_CORPUS  directory with committed regression scripts of this property
//	VERIF_HANG_S  seconds without a finished case after which the process gives up
package evid

import (
	"crypto/sha256"
	"encoding/binary"
	"encoding/json"
	"fmt"
	"os"
	"path/filepath"
	"sort"
	"strconv"
	"strings"
	"sync"
	"sync/atomic"
	"testing"
	"time"

	"pgregory.net/rapid"
)

// Outcome is what one execution of a script says about the property.
type Outcome struct {
	// Err is a violation of the property (nil = held).
	Err error
	// Skip marks a case on which the property could not be decided (for example the
	// discipline wedged for a reason that belongs to another property). Never a
	// violation.
	Skip string
	// NonTrivial by the rule of the property.
	NonTrivial bool
	// Classes are labels counted in the evidence histogram.
	Classes []string
	// Summary is a short description of what was observed (kept for samples).
	Summary any
	// Counters are summed over all cases (e.g. operations executed / operations that were no-ops).
	Counters map[string]int
	// NoShrink: the failure is reported as it is (used for spin verdicts, where every further
	// execution costs the whole real-time budget and leaves a busy goroutine behind).
	NoShrink bool
	// Known is set when the failure matches a listed known finding (Err is then
	// reported as KNOWN-FINDING, not as a violation).
	Known string
}

// Prop describes one property check over scripts of type S.
type Prop[S any] struct {
	ID   string
	Rule string
	Gen  func(thorough bool) *rapid.Generator[S]
	Run  func(s S) Outcome
	// Pre is executed once before generation (corpus independent extra cases, e.g. a
	// bounded exhaustive enumeration). It reports cases through the callback.
	Pre func(thorough bool, each func(s S, label string) bool)
}

type fragment struct {
	Property    string         `json:"property"`
	Evaluations int            `json:"evaluations"`
	Nontrivial  []string       `json:"nontrivial_hashes"`
	Classes     map[string]int `json:"classes"`
	Counters    map[string]int `json:"counters"`
	Skips       map[string]int `json:"skips"`
	Samples     []any          `json:"samples"`
	Violations  int            `json:"violations"`
	Known       []string       `json:"known"`
	Corpus      int            `json:"corpus_replayed"`
	Pre         int            `json:"pre_cases"`
	Requested   int            `json:"rapid_checks_requested"`
	WallS       float64        `json:"wall_s"`
	Rule        string         `json:"rule"`
}

type runner[S any] struct {
	p        Prop[S]
	out      string
	mu       sync.Mutex
	frag     fragment
	seen     map[[8]byte]struct{}
	progress atomic.Int64
	current  atomic.Pointer[[]byte]
	maxSamp  int
	cur      *os.File
}

func Thorough() bool { return os.Getenv("VERIF_TIER") == "thorough" }

func hashOf(b []byte) [8]byte {
	h := sha256.Sum256(b)
	var r [8]byte
	copy(r[:], h[:8])
	return r
}

func (r *runner[S]) account(s S, js []byte, o Outcome) {
	r.mu.Lock()
	defer r.mu.Unlock()
	r.frag.Evaluations++
	for _, c := range o.Classes {
		r.frag.Classes[c]++
	}
	for k, v := range o.Counters {
		r.frag.Counters[k] += v
	}
	if o.Skip != "" {
		r.frag.Skips[o.Skip]++
		return
	}
	if o.NonTrivial {
		h := hashOf(js)
		if _, ok := r.seen[h]; !ok {
			r.seen[h] = struct{}{}
			if len(r.frag.Samples) < r.maxSamp {
				r.frag.Samples = append(r.frag.Samples, map[string]any{
					"script":   json.RawMessage(js),
					"observed": o.Summary,
				})
			}
		}
	}
}

func (r *runner[S]) writeFrag(start time.Time) {
	r.mu.Lock()
	defer r.mu.Unlock()
	r.frag.Nontrivial = []string{}
	for h := range r.seen {
		r.frag.Nontrivial = append(r.frag.Nontrivial, strconv.FormatUint(binary.BigEndian.Uint64(h[:]), 16))
	}
	sort.Strings(r.frag.Nontrivial)
	r.frag.WallS = time.Since(start).Seconds()
	if r.out == "" {
		return
	}
	b, _ := json.Marshal(r.frag)
	_ = os.WriteFile(filepath.Join(r.out, "evidence.json"), b, 0o644)
}

func (r *runner[S]) writeReplay(js []byte, err error) {
	if r.out == "" {
		return
	}
	_ = os.WriteFile(filepath.Join(r.out, "replay.json"), js, 0o644)
	_ = os.WriteFile(filepath.Join(r.out, "replay.reason"), []byte(err.Error()), 0o644)
}

func (r *runner[S]) watchdog(limit time.Duration) {
	last := r.progress.Load()
	lastAt := time.Now()
	for {
		time.Sleep(500 * time.Millisecond)
		cur := r.progress.Load()
		if cur != last {
			last, lastAt = cur, time.Now()
			continue
		}
		if time.Since(lastAt) > limit {
			if r.out != "" {
				if p := r.current.Load(); p != nil {
					_ = os.WriteFile(filepath.Join(r.out, "hang.json"), *p, 0o644)
				}
			}
			fmt.Fprintf(os.Stderr, "VERIF-HANG property=%s no case finished for %s (real time)\n", r.p.ID, limit)
			os.Exit(3)
		}
	}
}

func (r *runner[S]) exec(s S) (Outcome, []byte) {
	js, err := json.Marshal(s)
	if err != nil {
		panic(err)
	}
	r.current.Store(&js)
	if r.cur != nil {
		// one pwrite per case: "<length>\n<script JSON>"; stale bytes behind the length are ignored
		hdr := fmt.Sprintf("%010d\n", len(js))
		_, _ = r.cur.WriteAt(append([]byte(hdr), js...), 0)
	}
	o := r.p.Run(s)
	r.progress.Add(1)
	r.account(s, js, o)
	return o, js
}

// Run executes the property check inside a Go test.
func Run[S any](t *testing.T, p Prop[S]) {
	start := time.Now()
	r := &runner[S]{p: p, out: os.Getenv("VERIF_OUT"), seen: map[[8]byte]struct{}{}, maxSamp: 4}
	r.frag = fragment{Property: p.ID, Classes: map[string]int{}, Counters: map[string]int{}, Skips: map[string]int{}, Rule: p.Rule, Samples: []any{}, Known: []string{}}
	if r.out != "" {
		_ = os.MkdirAll(r.out, 0o755)
		r.cur, _ = os.OpenFile(filepath.Join(r.out, "current.bin"), os.O_CREATE|os.O_RDWR|os.O_TRUNC, 0o644)
	}
	hang := 30 * time.Second
	if v, err := strconv.Atoi(os.Getenv("VERIF_HANG_S")); err == nil && v > 0 {
		hang = time.Duration(v) * time.Second
	}
	go r.watchdog(hang)
	defer r.writeFrag(start)

	fail := func(js []byte, o Outcome, how string) {
		r.mu.Lock()
		r.frag.Violations++
		r.mu.Unlock()
		r.writeReplay(js, o.Err)
		r.writeFrag(start)
		t.Fatalf("%s: property %s violated: %v\nscript: %s", how, p.ID, o.Err, js)
	}

	if rp := os.Getenv("VERIF_REPLAY"); rp != "" {
		b, err := os.ReadFile(rp)
		if err != nil {
			t.Fatalf("replay file: %v", err)
		}
		var s S
		if err := json.Unmarshal(b, &s); err != nil {
			t.Fatalf("replay file does not parse as a %s script: %v", p.ID, err)
		}
		o, js := r.exec(s)
		if o.Err != nil {
			if o.Known != "" {
				fmt.Printf("KNOWN-FINDING: property=%s %s\n", p.ID, o.Known)
				return
			}
			fail(js, o, "replay")
		}
		if o.Skip != "" {
			fmt.Printf("REPLAY-INCONCLUSIVE property=%s %s\n", p.ID, o.Skip)
		} else {
			fmt.Printf("REPLAY-OK property=%s\n", p.ID)
		}
		return
	}

	// 1. committed corpus (regression scripts and boundary seeds)
	if dir := os.Getenv("VERIF_CORPUS"); dir != "" {
		files, _ := filepath.Glob(filepath.Join(dir, "*.json"))
		sort.Strings(files)
		for _, f := range files {
			b, err := os.ReadFile(f)
			if err != nil {
				continue
			}
			var s S
			if err := json.Unmarshal(b, &s); err != nil {
				t.Fatalf("corpus file %s does not parse: %v", f, err)
			}
			o, js := r.exec(s)
			r.frag.Corpus++
			if o.Err != nil {
				if o.Known != "" {
					r.frag.Known = append(r.frag.Known, o.Known)
					fmt.Printf("KNOWN-FINDING: property=%s %s\n", p.ID, o.Known)
					continue
				}
				fail(js, o, "corpus "+filepath.Base(f))
			}
		}
	}

	// 2. extra deterministic cases (bounded exhaustive enumeration etc.)
	if p.Pre != nil {
		p.Pre(Thorough(), func(s S, label string) bool {
			o, js := r.exec(s)
			r.frag.Pre++
			if o.Err != nil {
				fail(js, o, label)
				return false
			}
			return true
		})
	}

	// 3. generated cases
	if p.Gen == nil {
		return
	}
	gen := p.Gen(Thorough())
	rapid.Check(t, func(rt *rapid.T) {
		s := gen.Draw(rt, "script")
		o, js := r.exec(s)
		if o.Err != nil && o.Known != "" {
			// a listed known finding met by a generated case: excluded from the search and counted
			r.mu.Lock()
			r.frag.Skips["known finding met and excluded: "+strings.SplitN(o.Known, " ", 2)[0]]++
			r.mu.Unlock()
			return
		}
		if o.Err != nil {
			r.mu.Lock()
			r.frag.Violations++
			r.mu.Unlock()
			r.writeReplay(js, o.Err)
			if o.NoShrink {
				r.writeFrag(start)
				fmt.Printf("property %s violated (not shrunk): %v\nscript: %s\n", p.ID, o.Err, js)
				os.Exit(1)
			}
			rt.Fatalf("property %s violated: %v\nscript: %s", p.ID, o.Err, js)
		}
	})
}
