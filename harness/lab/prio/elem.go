package prio

import (
	"context"
	"fmt"
	"sync"
	"testing"

	"cqosverif/internal/bubble"

	v1 "github.com/akramarenkov/cqos/priority"
	"github.com/akramarenkov/cqos/v2/priority"
	"github.com/akramarenkov/cqos/v2/priority/divider"
	"github.com/akramarenkov/cqos/v2/priority/simple"
	"pgregory.net/rapid"
)

// ElemCase : the generic priority disciplines instantiated with an item type other than the
// lab's own. With a zero-size type only the counts per priority are observable, with the wide
// type also identity and order.
type ElemCase struct {
	Ver    int    `json:"version"`
	Simple bool   `json:"simple"`
	Elem   string `json:"element_type"` // empty | wide
	Rate   bool   `json:"rate_divider"`
	H      uint   `json:"handlers"`
	Counts []int  `json:"items_per_priority"` // priorities len..1
	Cap    int    `json:"input_cap"`
}

type wideItem struct {
	p, s int
	pad  [20]int64
}

// CheckElem : everything written is delivered exactly once under its priority and the discipline terminates.
func CheckElem(t *testing.T, c ElemCase) error {
	if c.Elem == "empty" {
		return checkElemT(t, c, func(p, s int) struct{} { return struct{}{} }, nil)
	}
	if c.Elem == "iface" {
		// interface values, some of them nil: only the counts are checked
		return checkElemT(t, c, func(p, s int) any {
			if s%3 == 1 {
				return nil
			}
			return s
		}, nil)
	}
	return checkElemT(t, c, func(p, s int) wideItem { return wideItem{p: p, s: s} }, func(w wideItem) (int, int) { return w.p, w.s })
}

func checkElemT[T any](t *testing.T, c ElemCase, mk func(p, s int) T, id func(T) (int, int)) error {
	n := len(c.Counts)
	var (
		mu     sync.Mutex
		got    = map[uint]int{}
		bad    string
		newErr error
		errVal error
		ended  bool
	)
	record := func(p uint, hasTag bool, it T) {
		mu.Lock()
		defer mu.Unlock()
		if id != nil {
			ip, is := id(it)
			if hasTag && uint(ip) != p && bad == "" {
				bad = fmt.Sprintf("item (%d,%d) delivered with priority %d", ip, is, p)
			}
			p = uint(ip)
		}
		got[p]++
	}
	res := bubble.Run(t, func() {
		ins := map[uint]<-chan T{}
		for i, k := range c.Counts {
			p := n - i
			ch := make(chan T, c.Cap)
			ins[uint(p)] = ch
			go func(p, k int) {
				for s := 0; s < k; s++ {
					ch <- mk(p, s)
				}
				close(ch)
			}(p, k)
		}
		defer func() {
			if r := recover(); r != nil {
				newErr = fmt.Errorf("constructor or discipline panicked: %v", r)
			}
		}()
		switch {
		case c.Ver == 2 && c.Simple:
			d, err := simple.New(simple.Opts[T]{Divider: div2(c.Rate), HandlersQuantity: c.H, Inputs: ins, Handle: func(it T) { record(0, false, it) }})
			if err != nil {
				newErr = err
				return
			}
			errVal = <-d.Err()
		case c.Ver == 2:
			d, err := priority.New(priority.Opts[T]{Divider: div2(c.Rate), HandlersQuantity: c.H, Inputs: ins})
			if err != nil {
				newErr = err
				return
			}
			for pr := range d.Output() {
				record(pr.Priority, true, pr.Item)
				go d.Release(pr.Priority) // a handler of its own per item: a release never waits for this receiver
			}
			errVal = <-d.Err()
		case c.Simple:
			d, err := v1.NewSimple(v1.SimpleOpts[T]{Divider: div1(c.Rate), HandlersQuantity: c.H, Inputs: ins, Handle: func(_ context.Context, it T) { record(0, false, it) }})
			if err != nil {
				newErr = err
				return
			}
			d.GracefulStop()
			errVal = <-d.Err()
		default:
			out := make(chan v1.Prioritized[T])
			fb := make(chan uint)
			d, err := v1.New(v1.Opts[T]{Divider: div1(c.Rate), Feedback: fb, HandlersQuantity: c.H, Inputs: ins, Output: out})
			if err != nil {
				newErr = err
				return
			}
			done := make(chan struct{})
			go func() {
				for {
					select {
					case pr := <-out:
						record(pr.Priority, true, pr.Item)
						go func(p uint) { // a handler of its own per item
							select {
							case fb <- p:
							case <-done:
							}
						}(pr.Priority)
					case <-done:
						return
					}
				}
			}()
			d.GracefulStop()
			close(done)
			errVal = <-d.Err()
		}
		ended = true
	})
	if newErr != nil {
		return fmt.Errorf("item type %s: %w", c.Elem, newErr)
	}
	if res.Deadlock != "" || res.Spin || !ended {
		return fmt.Errorf("item type %s: run did not complete: %s", c.Elem, res.Deadlock+res.Panic)
	}
	if errVal != nil {
		return fmt.Errorf("item type %s: Err() yielded %v", c.Elem, errVal)
	}
	if bad != "" {
		return fmt.Errorf("item type %s: %s", c.Elem, bad)
	}
	total, want := 0, 0
	for i, k := range c.Counts {
		p := uint(n - i)
		want += k
		total += got[p]
		if (id != nil || !c.Simple) && got[p] != k {
			return fmt.Errorf("item type %s: priority %d: %d items delivered, %d written (%v)", c.Elem, p, got[p], k, got)
		}
	}
	if c.Simple && id == nil {
		total = got[0]
	}
	if total != want {
		return fmt.Errorf("item type %s: %d items delivered, %d written", c.Elem, total, want)
	}
	return nil
}

func div2(rate bool) divider.Divider {
	if rate {
		return divider.Rate
	}
	return divider.Fair
}

func div1(rate bool) v1.Divider {
	if rate {
		return v1.RateDivider
	}
	return v1.FairDivider
}

// GenElem draws small configurations that every constructor accepts.
func GenElem(thorough bool) *rapid.Generator[ElemCase] {
	return rapid.Custom(func(t *rapid.T) ElemCase {
		c := ElemCase{
			Ver:    pick(t, "ver", 1, 2),
			Simple: rapid.Bool().Draw(t, "simple"),
			Elem:   pick(t, "elem", "empty", "empty", "wide", "iface"),
			Rate:   rapid.Bool().Draw(t, "rate"),
			Cap:    pick(t, "cap", 0, 1, 4, 32),
		}
		n := rapid.IntRange(1, 3).Draw(t, "n")
		c.H = uint(pick(t, "h", 6, 7, 12)) // >= 6: every subset of {3,2,1} gets a handler under both dividers
		for i := 0; i < n; i++ {
			c.Counts = append(c.Counts, pick(t, "count", 0, 1, 2, 5, 20))
		}
		return c
	})
}
