// Package prio is the lab of the priority disciplines (v1 and v2, plain and simplified).
// A generated script of operations is executed step by step against the real, unmodified
// discipline goroutines inside a synctest bubble: the script goroutine is the only
// consumer, it decides when items are written, received, released (and in which order
// and grouping), when time passes, when inputs are closed, added or removed and when the
// discipline is stopped; the wrapping divider can be told to lie at a chosen call.
package prio

// In describes one input channel.
type In struct {
	P       uint `json:"priority"`
	Cap     int  `json:"cap"`
	Prefill int  `json:"prefill"` // items handed to the producer of this input before the discipline starts
}

// Op is one step of a script.
//
//	W  P N     producer of input P gets N more items to write
//	C  P [M]   producer of input P closes the channel after its pending writes (M=1: every input of priority >= P)
//	D          drain: wait for quiescence, receive everything that is available, snapshot
//	R  N       receive at most N items that are available now
//	F  Picks   release (simple: finish Handle of) the picked in-flight items one after another
//	FM Picks   release the picked in-flight items all at once
//	FP P N     release the oldest (N=0) / newest (N=1) in-flight item of priority P
//	T  N       let N virtual nanoseconds pass
//	A  P N M   v1: AddInput(new channel of capacity N, P), producer gets M items
//	X  P       v1: RemoveInput(P)
//	G  [N]     v1: GracefulStop(); N=2: a second call while the first one is pending
//	S  N       v1: Stop(); N=2: two overlapping Stop() calls from two goroutines
//	K          v1: cancel the context
type Op struct {
	K     string `json:"op"`
	P     uint   `json:"p,omitempty"`
	N     int    `json:"n,omitempty"`
	M     int    `json:"m,omitempty"`
	Picks []int  `json:"picks,omitempty"`
}

// Fault makes the wrapping divider return a wrong total at one call.
type Fault struct {
	Call  int  `json:"call"` // 1-based index among the calls that are eligible (see Executor)
	Over  bool `json:"over"` // true: add Delta units, false: remove up to Delta units (keeping the total >= 1 and != dividend)
	Delta uint `json:"delta"`
	// Outside: the surplus lands on a configured priority that is NOT in the list the divider
	// was called with (falls back to the first listed priority when every priority is listed)
	Outside bool `json:"outside_the_list"`
	// AfterGStop (v1): instead of counting calls, the fault hits the first eligible call that is
	// made after GracefulStop() has been requested
	AfterGStop bool `json:"at_first_call_after_graceful_stop,omitempty"`
}

// Script is one run of the priority lab (also the replay file format).
type Script struct {
	Ver    int    `json:"version"` // 1 | 2
	Simple bool   `json:"simple"`
	Div    string `json:"divider"` // fair | rate | fairlow | square
	Ins    []In   `json:"inputs"`
	H      uint   `json:"handlers"`
	OutCap int    `json:"v1_output_cap"`
	FbCap  int    `json:"v1_feedback_cap"`
	Ops    []Op   `json:"ops"`
	Fault  *Fault `json:"fault,omitempty"`
	// Epilogue "normal": close every input, (v1) GracefulStop, release everything (one item
	// at a time, oldest first unless EpiNewest) and drain until termination. "none": only
	// clean up (used after Stop/cancel).
	Epilogue  string `json:"epilogue"`
	EpiNewest bool   `json:"epilogue_release_newest_first"`
	// Strict: the consumer waits for quiescence after every single receive, so that a discipline
	// with an unbuffered output reads at most one item from an input between two quiescent
	// points and producers blocked on a small input buffer keep it full at all times.
	Strict bool `json:"receive_one_at_a_time,omitempty"`
	// PreCancel (v1): the context is cancelled before the discipline is created; the ops are not executed
	PreCancel bool `json:"context_cancelled_before_creation,omitempty"`
	// ErrLate (v2 plain): the consumer does not touch Err() before Output() has been closed
	ErrLate bool `json:"err_read_only_after_output_closed,omitempty"`
	// EpiHold: in the epilogue, once the inputs are closed and everything available has
	// been received, the consumer sits on the in-flight items for this many virtual ns before it
	// releases the first of them (a slow handler).
	EpiHold int64 `json:"epilogue_hold_ns,omitempty"`
	// HandleLag: v1 simplified discipline: Handle returns this many virtual ns after its context
	// was cancelled (it honours the context, it just is not instantaneous).
	HandleLag int64 `json:"handle_return_lag_ns,omitempty"`
}

// Item is what travels through the discipline: globally unique identity.
type Item struct {
	P uint // priority its channel was registered with
	G int  // generation of the channel for that priority (v1 replacement)
	S int  // sequence number within the channel
}

// Delivery is one item handed out by the discipline.
type Delivery struct {
	It       Item
	Tag      uint // Prioritized.Priority (plain disciplines)
	HasTag   bool
	At       int64
	AfterOp  int // index of the op during which it was received (len(ops) = epilogue)
	Released bool
}

// Snap is the state observed at a quiescent point (after a drain).
type Snap struct {
	Op         int
	At         int64
	InFlight   map[uint]int // per priority, received and not released
	Total      int
	Pending    map[uint]int // per configured, not removed input: items handed to the producer and not yet delivered
	AllClosed  bool         // every configured input was closed by its producer
	Terminated bool
	GStopAsked bool
	Epilogue   bool
	Queued     int    // releases issued whose helper has not completed (discipline has not taken them)
	Configured []uint // priorities registered at this moment (v1: after the additions and removals that have returned)
}

// DivViolation is a broken divider-call contract.
type DivViolation struct {
	Call     int
	Prios    []uint
	Dividend uint
	NilMap   bool
	What     string
}

// InputEvent records AddInput / RemoveInput (v1).
type InputEvent struct {
	Kind          string // add | remove
	P             uint
	Gen           int // add: generation of the new channel; remove: generation removed
	IssuedOp      int
	Returned      bool
	ReturnedAt    int64
	ReadsAtRet    int // remove: number of items the discipline had read from the channel when the call returned
	ReadsFinal    int // remove: ... at the end of the run
	DelivAtRet    int // add: number of deliveries recorded when AddInput returned
	OldGen        int // add: generation of the channel that was replaced (0 = none)
	OldReadsAtRet int
	OldReadsFinal int
}

// Trace is everything observed in one run.
type Trace struct {
	SpinAfterStop    bool   // spin verdict: Stop()/cancel had been issued
	SpinAfterTerm    bool   // spin verdict: termination had already been observed
	SpinAfterFault   bool   // spin verdict: the fault of the plan had been injected
	HarnessPanic     string // a panic of the harness itself (never blamed on the library)
	RetriedAfterSpin bool   // first attempt was abandoned (its goroutines may still run)
	Spin             bool   // the case exceeded its real-time budget twice (a goroutine spins); only Deadlock is set then
	NewErr           string
	Deadlock         string
	Leaked           []string
	Deliveries       []Delivery
	Snaps            []Snap
	MaxInFlight      int
	MaxPerPrio       map[uint]int    // highest in-flight count seen per priority before the epilogue
	MaxPerPrioAt     map[uint]string // where that count was reached
	OverCommit       string          // first moment in-flight exceeded H
	Noops            int
	OpsDone          int

	DivCalls            int
	DivSamples          []DivViolation // a few calls, for the evidence
	DivViolations       []DivViolation
	FaultCall           int // absolute call number that was corrupted (0 = none)
	FaultOutLen         int // items sitting in the output channel when the fault was injected
	FaultDelivs         int // deliveries recorded when the fault was injected
	FaultInFlight       int
	FaultAtCreate       bool
	FaultBeforeClose    bool // the fault had been injected before the epilogue closed the inputs
	FaultTermOpenInputs bool // after the fault the discipline terminated once everything was released, with its inputs still open
	FaultEarly          bool // fault injected before the constructor returned to the harness (output length unknown)

	Terminated             bool
	TerminatedAt           int64
	TermOp                 int
	TermHow                string
	TermInFlight           int // harness in-flight count when termination was first observed
	TermPending            int // written and undelivered items at that moment
	TermAllClosed          bool
	TermGStopAsked         bool
	ErrVal                 string // value read from Err() ("" none, "nil-closed" closed without value)
	ErrClosed              bool
	ReleasePanics          int
	GStopIssuedAt          int64
	GStopReturned          bool
	StopIssuedAt           int64
	StopIssuedOp           int
	StopMode               string
	StopReturned           bool
	CancelTookEffect       bool // cancel: Err() was closed within the bounded wait, before Stop() was called
	StopReturnedAt         int64
	StopOutLen             int // items in the (v1) output channel when Stop returned
	StopInFlight           int
	StopBlockedOut         bool // discipline was blocked on a full output when Stop was issued
	AfterStopRecv          int  // items received after Stop returned
	AfterStopNew           int  // ... beyond what sat in the output channel at that moment
	HandleRunningAfterStop int

	Inputs []InputEvent
	// per input generation: written (handed to producer), producer writes completed, closed
	InStat []InStat

	EpilogueStuck string
	SingleActive  bool // some drain saw exactly one priority with pending data and nothing in flight before it
	MultiFeedback bool
}

// InStat is the final state of one input channel.
type InStat struct {
	P            uint
	Gen          int
	Cap          int
	Enq          int
	WDone        int
	Closed       bool
	Removed      bool
	Replaced     bool
	Delivered    int
	Reads        int  // items the discipline took from the channel
	Unregistered bool // channel of an AddInput call that never returned (the discipline terminated first)
}
