package prio

import (
	"context"
	"errors"
	"fmt"
	"sort"
	"strings"
	"sync"
	"sync/atomic"
	"syscall"
	"testing"
	"time"

	"cqosverif/internal/bubble"

	v1 "github.com/akramarenkov/cqos/priority"
	"github.com/akramarenkov/cqos/v2/priority"
	"github.com/akramarenkov/cqos/v2/priority/divider"
	"github.com/akramarenkov/cqos/v2/priority/simple"
)

type wcmd struct {
	it    Item
	close bool
}

type input struct {
	p        uint
	gen      int
	cap      int
	ch       chan Item
	cmds     chan wcmd
	enq      int
	closeReq bool
	wdone    atomic.Int64
	wstart   atomic.Int64 // sends started (item handed to the channel operation)
	closed   atomic.Bool
	removed  atomic.Bool
	replaced bool
	unreg    atomic.Bool // channel of an AddInput call that has not returned yet
	deliv    int
}

type call struct {
	di   int // delivery index
	done chan struct{}
}

type adapter struct {
	tryRecv func() (it Item, tag uint, got bool, closed bool)
	release func(tag uint) // may block; honours quit
	errCh   func() <-chan error
	outLen  func() int
	// v1
	addInput    func(ch <-chan Item, p uint)
	removeInput func(p uint)
	gstop       func()
	stop        func()
	cancel      func()
}

type exec struct {
	s     Script
	tr    *Trace
	mu    sync.Mutex
	epoch time.Time
	quit  chan struct{}
	wg    sync.WaitGroup

	inputs map[uint]*input
	all    []*input
	gens   map[uint]int

	live     []int // delivery indices in flight, in delivery order
	calls    map[int]*call
	opIdx    atomic.Int64
	ad       adapter
	queued   atomic.Int32
	relSince atomic.Int32 // releases issued since the last quiescent point (the discipline consumes them a few per loop round)
	cleanup  atomic.Bool  // the harness has started to tear the run down: terminations from here on are its own doing
	stopA    atomic.Bool  // Stop()/cancel has been issued (survives an abandoned bubble)
	termA    atomic.Bool  // termination has been observed (Stop() returned, Err()/Output() closed, GracefulStop returned)
	faultA   atomic.Bool  // the fault of the plan has been injected (survives an abandoned bubble)
	created  atomic.Bool

	leakScan   bool
	before     map[string]string // library goroutines that existed before the case (leak scan)
	terminated bool
	termFinal  bool
	stopIssued bool
	gstopAsked bool
	delta      time.Duration

	// divider wrapper state
	divEligible int
	need        map[uint]int  // upper bound of the items any producer of that priority is handed
	removedSet  map[uint]bool // v1: priorities whose RemoveInput has returned (and not re-added)
	everSet     map[uint]bool
	configured  map[uint]bool // priorities the discipline has: initial, plus AddInput returned, minus RemoveInput returned
}

func (e *exec) now() int64 { return int64(time.Since(e.epoch)) }

// ---------------------------------------------------------------- dividers

type divFn func(prios []uint, dividend uint, dist map[uint]uint)

func fairLow(prios []uint, dividend uint, dist map[uint]uint) {
	n := uint(len(prios))
	if n == 0 || dist == nil {
		return
	}
	base := dividend / n
	rem := dividend - base*n
	for i := len(prios) - 1; i >= 0; i-- {
		dist[prios[i]] += base
		if rem > 0 {
			dist[prios[i]]++
			rem--
		}
	}
}

// square: weights p*p, largest remainder method, ties to the higher priority.
func square(prios []uint, dividend uint, dist map[uint]uint) {
	if len(prios) == 0 || dist == nil {
		return
	}
	var sum uint64
	for _, p := range prios {
		sum += uint64(p) * uint64(p)
	}
	if sum == 0 {
		dist[prios[0]] += dividend
		return
	}
	type part struct {
		i   int
		rem uint64
	}
	parts := make([]part, len(prios))
	given := uint(0)
	for i, p := range prios {
		w := uint64(p) * uint64(p) * uint64(dividend)
		q := uint(w / sum)
		dist[p] += q
		given += q
		parts[i] = part{i, w % sum}
	}
	sort.SliceStable(parts, func(a, b int) bool { return parts[a].rem > parts[b].rem })
	for k := 0; given < dividend; k++ {
		dist[prios[parts[k%len(parts)].i]]++
		given++
	}
}

func baseDivider(name string) divFn {
	switch name {
	case "fair":
		return divFn(divider.Fair)
	case "rate":
		return divFn(divider.Rate)
	case "fairlow":
		return fairLow
	default:
		return square
	}
}

// Share computes the divider's distribution for (all priorities sorted high to low, H).
func Share(s Script) map[uint]uint {
	var ps []uint
	for _, in := range s.Ins {
		ps = append(ps, in.P)
	}
	sort.Slice(ps, func(i, j int) bool { return ps[i] > ps[j] })
	m := map[uint]uint{}
	baseDivider(s.Div)(ps, s.H, m)
	return m
}

// onDivide is called by the wrapping divider on the discipline's goroutine.
func (e *exec) onDivide(prios []uint, dividend uint, dist map[uint]uint, nilMap bool) {
	e.mu.Lock()
	defer e.mu.Unlock()
	e.tr.DivCalls++
	n := e.tr.DivCalls
	bad := func(what string) {
		if len(e.tr.DivViolations) < 4 {
			e.tr.DivViolations = append(e.tr.DivViolations, DivViolation{Call: n, Prios: append([]uint(nil), prios...), Dividend: dividend, NilMap: nilMap, What: what})
		}
	}
	for i := range prios {
		if i > 0 && prios[i] >= prios[i-1] {
			bad("priorities are not distinct and sorted from highest to lowest")
			break
		}
	}
	for _, p := range prios {
		if !e.everSet[p] {
			bad(fmt.Sprintf("priority %d was never configured", p))
			break
		}
		if e.removedSet[p] {
			bad(fmt.Sprintf("priority %d had been removed (RemoveInput returned) before this call", p))
			break
		}
	}
	if dividend > e.s.H {
		bad(fmt.Sprintf("dividend %d exceeds HandlersQuantity %d", dividend, e.s.H))
	}
	if e.s.Ver == 2 && nilMap {
		bad("nil distribution passed to a v2 divider")
	}
	if len(e.tr.DivSamples) < 3 && len(prios) > 0 {
		e.tr.DivSamples = append(e.tr.DivSamples, DivViolation{Call: n, Prios: append([]uint(nil), prios...), Dividend: dividend, NilMap: nilMap})
	}
}

// maybeFault corrupts the result of an eligible call according to the fault plan.
func (e *exec) maybeFault(prios []uint, dividend uint, dist map[uint]uint, eligible bool) {
	f := e.s.Fault
	if f == nil || !eligible || dist == nil || (len(prios) == 0 && !f.Outside) {
		// (a call with an empty list can only be corrupted by putting units on a priority outside it)
		return
	}
	e.mu.Lock()
	e.divEligible++
	hit := e.divEligible == f.Call && e.tr.FaultCall == 0
	if f.AfterGStop {
		// state-triggered: the first eligible call made once the graceful stop has been requested
		hit = e.gstopAsked && e.tr.FaultCall == 0
	}
	e.mu.Unlock()
	if !hit {
		return
	}
	d := f.Delta
	if d == 0 {
		d = 1
	}
	done := false
	if f.Outside {
		listed := map[uint]bool{}
		for _, p := range prios {
			listed[p] = true
		}
		e.mu.Lock()
		var outside []uint
		for p := range e.configured {
			if !listed[p] {
				outside = append(outside, p)
			}
		}
		e.mu.Unlock()
		sort.Slice(outside, func(i, j int) bool { return outside[i] > outside[j] })
		if len(prios) == 0 {
			// nothing is listed, so a correct divider adds nothing whatever the dividend: the
			// corrupted total must differ from the dividend as well as from zero
			d += dividend
		}
		if len(outside) > 0 {
			dist[outside[0]] += d
		} else {
			dist[prios[0]] += d
		}
		done = true
	} else if f.Over {
		dist[prios[0]] += d
		done = true
	} else {
		// remove up to d units from listed entries while keeping the whole distribution >= 1
		total := uint(0)
		for _, v := range dist {
			total += v
		}
		for _, p := range prios {
			for d > 0 && dist[p] > 0 && total > 1 {
				dist[p]--
				total--
				d--
				done = true
			}
		}
		if !done { // nothing to take away: fall back to over-allocation
			dist[prios[0]] += f.Delta + 1
			done = true
		}
	}
	if done {
		e.faultA.Store(true)
		e.mu.Lock()
		e.tr.FaultCall = e.tr.DivCalls
		e.tr.FaultDelivs = len(e.tr.Deliveries)
		e.tr.FaultInFlight = len(e.live)
		// v2: the first call is the strategic division made by New itself
		e.tr.FaultAtCreate = e.s.Ver == 2 && e.tr.DivCalls == 1
		if e.created.Load() && e.ad.outLen != nil {
			e.tr.FaultOutLen = e.ad.outLen()
		} else if !e.tr.FaultAtCreate {
			// the discipline's goroutine got here before the constructor returned to the
			// harness: the output channel is not known yet
			e.tr.FaultEarly = true
		}
		e.mu.Unlock()
	}
}

func (e *exec) dividerV2() divider.Divider {
	base := baseDivider(e.s.Div)
	return func(prios []uint, dividend uint, dist map[uint]uint) {
		e.onDivide(prios, dividend, dist, dist == nil)
		if dividend > 4*e.s.H+64 && dist != nil && len(prios) > 0 {
			// a dividend far above HandlersQuantity (already recorded as a contract violation)
			// would make the custom dividers loop for ages: stay sum-preserving in O(1)
			dist[prios[0]] += dividend
			return
		}
		base(prios, dividend, dist)
		e.maybeFault(prios, dividend, dist, true)
	}
}

func (e *exec) dividerV1() v1.Divider {
	var base v1.Divider
	switch e.s.Div {
	case "fair":
		base = v1.FairDivider
	case "rate":
		base = v1.RateDivider
	default:
		fn := baseDivider(e.s.Div)
		base = func(prios []uint, dividend uint, dist map[uint]uint) map[uint]uint {
			if len(prios) == 0 {
				return nil
			}
			if dist == nil {
				dist = make(map[uint]uint, len(prios))
			}
			fn(prios, dividend, dist)
			return dist
		}
	}
	return func(prios []uint, dividend uint, dist map[uint]uint) map[uint]uint {
		nilMap := dist == nil
		e.onDivide(prios, dividend, dist, nilMap)
		if dividend > 4*e.s.H+64 && dist != nil && len(prios) > 0 {
			dist[prios[0]] += dividend
			return dist
		}
		out := base(prios, dividend, dist)
		// v1 validates only the divisions made for a round (non-nil map)
		e.maybeFault(prios, dividend, out, !nilMap)
		return out
	}
}

// ---------------------------------------------------------------- inputs

func (e *exec) newInput(p uint, cp int) *input {
	e.gens[p]++
	in := &input{p: p, gen: e.gens[p], cap: cp, ch: make(chan Item, cp), cmds: make(chan wcmd, e.need[p]+16)}
	e.all = append(e.all, in)
	e.wg.Add(1)
	go func() {
		defer e.wg.Done()
		for {
			select {
			case c := <-in.cmds:
				if c.close {
					close(in.ch)
					in.closed.Store(true)
					return
				}
				in.wstart.Add(1)
				select {
				case in.ch <- c.it:
					in.wdone.Add(1)
				case <-e.quit:
					return
				}
			case <-e.quit:
				return
			}
		}
	}()
	return in
}

func (e *exec) write(in *input, n int) {
	if in.enq+n > e.need[in.p] { // the command queue of a producer was sized from the script
		n = e.need[in.p] - in.enq
	}
	for i := 0; i < n; i++ {
		in.cmds <- wcmd{it: Item{P: in.p, G: in.gen, S: in.enq}}
		in.enq++
	}
}

// reads is exact at a quiescent point; readsHi is an upper bound at any moment (the
// producer's counter of completed sends may lag behind the channel by one).
func (in *input) reads() int { return int(in.wdone.Load()) - len(in.ch) }
func (in *input) readsHi() int {
	// length first: a producer that pushes between the two loads only raises the bound
	l := len(in.ch)
	return int(in.wstart.Load()) - l
}

// ---------------------------------------------------------------- deliveries

// delivered records one item handed out by the discipline. Caller holds e.mu.
func (e *exec) deliveredLocked(it Item, tag uint, hasTag bool) int {
	d := Delivery{It: it, Tag: tag, HasTag: hasTag, At: e.now(), AfterOp: int(e.opIdx.Load())}
	e.tr.Deliveries = append(e.tr.Deliveries, d)
	di := len(e.tr.Deliveries) - 1
	e.live = append(e.live, di)
	if len(e.live) > e.tr.MaxInFlight {
		e.tr.MaxInFlight = len(e.live)
	}
	if int(e.opIdx.Load()) < len(e.s.Ops) {
		c := 0
		for _, x := range e.live {
			if e.tr.Deliveries[x].It.P == it.P {
				c++
			}
		}
		if c > e.tr.MaxPerPrio[it.P] {
			e.tr.MaxPerPrio[it.P] = c
			per := map[uint]int{}
			for _, x := range e.live {
				per[e.tr.Deliveries[x].It.P]++
			}
			if e.tr.MaxPerPrioAt == nil {
				e.tr.MaxPerPrioAt = map[uint]string{}
			}
			e.tr.MaxPerPrioAt[it.P] = fmt.Sprintf("delivery #%d at %dns during op #%d, in flight then %v", di, d.At, int(e.opIdx.Load()), per)
		}
	}
	if uint(len(e.live)) > e.s.H && e.tr.OverCommit == "" {
		e.tr.OverCommit = fmt.Sprintf("%d items in flight (received and not released) after delivery #%d at %dns during op #%d, HandlersQuantity is %d", len(e.live), di, d.At, int(e.opIdx.Load()), e.s.H)
	}
	for _, in := range e.all {
		if in.p == it.P && in.gen == it.G {
			in.deliv++
		}
	}
	if e.tr.StopReturned {
		e.tr.AfterStopRecv++
	}
	return di
}

// recvAvailable receives up to max items without blocking. Returns the number received.
func (e *exec) recvAvailable(max int) int {
	if e.s.Simple || e.ad.tryRecv == nil {
		return 0
	}
	n := 0
	for max < 0 || n < max {
		// receive and record under one lock: the wrapping divider reads "deliveries recorded" and
		// "items in the output channel" under the same lock when it injects a fault, so no item is
		// ever in transit between the two
		e.mu.Lock()
		it, tag, got, closed := e.ad.tryRecv()
		if closed {
			e.markTerminatedLocked("output closed")
			e.mu.Unlock()
			return n
		}
		if !got {
			e.mu.Unlock()
			return n
		}
		e.deliveredLocked(it, tag, true)
		e.mu.Unlock()
		n++
		if e.s.Strict {
			e.wait()
		}
	}
	return n
}

func (e *exec) pollErr() {
	if e.ad.errCh == nil || e.tr.ErrClosed {
		return
	}
	if e.s.ErrLate && e.s.Ver == 2 && !e.s.Simple {
		// this consumer looks at Err() only once Output() has been closed
		e.mu.Lock()
		over := e.terminated
		e.mu.Unlock()
		if !over {
			return
		}
	}
	for {
		select {
		case err, ok := <-e.ad.errCh():
			if !ok {
				e.mu.Lock()
				e.tr.ErrClosed = true
				if e.tr.ErrVal == "" {
					e.tr.ErrVal = "nil-closed"
				}
				if e.s.Ver == 1 || e.s.Simple {
					e.markTerminatedLocked("Err() closed")
				}
				e.mu.Unlock()
				return
			}
			e.mu.Lock()
			switch {
			case err == nil:
				e.tr.ErrVal = "nil-value"
			case errors.Is(err, priority.ErrDividerBad) || errors.Is(err, v1.ErrDividerBad):
				e.tr.ErrVal = "ErrDividerBad"
			default:
				e.tr.ErrVal = err.Error()
			}
			e.mu.Unlock()
		default:
			return
		}
	}
}

// markTerminatedLocked records the first observation of termination together with the
// state the harness knows at that moment. Caller holds e.mu.
func (e *exec) markTerminatedLocked(how string) {
	if e.terminated || e.cleanup.Load() {
		return
	}
	e.terminated = true
	e.termA.Store(true)
	e.tr.Terminated = true
	e.tr.TerminatedAt = e.now()
	e.tr.TermOp = int(e.opIdx.Load())
	e.tr.TermHow = how
	e.tr.TermInFlight = len(e.live) // provisional, finalised at the next quiescent point (wait)
	e.tr.TermAllClosed = true
	e.tr.TermGStopAsked = e.gstopAsked
}

// wait blocks until every other goroutine of the bubble is durably blocked and then
// completes the record of a termination that was observed meanwhile: only now is the
// harness's own bookkeeping (helpers, producers) guaranteed to be up to date.
func (e *exec) wait() {
	bubble.Wait()
	e.mu.Lock()
	defer e.mu.Unlock()
	if !e.terminated || e.termFinal {
		return
	}
	e.termFinal = true
	if e.leakScan && !e.cleanup.Load() {
		// the discipline has just been seen terminated and everything is quiescent: by now
		// nothing it started may be left (no virtual time has passed since the observation)
		e.scanLocked("at the first quiescent point after termination was observed")
	}
	e.tr.TermInFlight = len(e.live)
	e.tr.TermAllClosed = true
	e.tr.TermPending = 0
	for _, in := range e.inputs {
		if in.removed.Load() || in.unreg.Load() {
			continue
		}
		if !in.closed.Load() {
			e.tr.TermAllClosed = false
		}
		e.tr.TermPending += in.enq - in.deliv
	}
}

// scanLocked records the library goroutines that did not exist before the case.
func (e *exec) scanLocked(when string) {
	for id, fr := range bubble.LibGoroutines() {
		if _, ok := e.before[id]; ok {
			continue
		}
		dup := false
		for _, l := range e.tr.Leaked {
			if strings.HasPrefix(l, fr) {
				dup = true
			}
		}
		if !dup {
			e.tr.Leaked = append(e.tr.Leaked, fr+" ("+when+")")
		}
	}
}

// settleOnce lets the discipline run for one settle quantum of virtual time.
func (e *exec) settleOnce() {
	time.Sleep(e.delta)
	e.wait()
}

// drain waits for quiescence receiving everything that becomes available. Progress is
// any new delivery (a receive here, or a Handle entry of a simplified discipline).
func (e *exec) drain() int {
	count := func() int {
		e.mu.Lock()
		defer e.mu.Unlock()
		return len(e.tr.Deliveries)
	}
	start := count()
	idle := 0
	e.wait()
	// every release issued since the last quiescent point may still sit in the feedback channel:
	// an idle discipline takes only a few of them per loop round, so give it a round per release
	need := 2 + int(e.relSince.Swap(0))
	for round := 0; idle < need && round < 100000; round++ {
		before := count()
		e.recvAvailable(-1)
		e.pollErr()
		e.settleOnce()
		e.recvAvailable(-1)
		if count() == before {
			idle++
		} else {
			idle = 0
		}
	}
	e.pollErr()
	return count() - start
}

func (e *exec) snapshot(epilogue bool) {
	e.mu.Lock()
	defer e.mu.Unlock()
	sn := Snap{Op: int(e.opIdx.Load()), At: e.now(), InFlight: map[uint]int{}, Pending: map[uint]int{}, AllClosed: true, Terminated: e.terminated, GStopAsked: e.gstopAsked, Epilogue: epilogue, Queued: int(e.queued.Load())}
	for _, di := range e.live {
		d := e.tr.Deliveries[di]
		p := d.It.P
		sn.InFlight[p]++
		sn.Total++
	}
	for _, in := range e.inputs {
		if in.removed.Load() || in.unreg.Load() {
			continue
		}
		sn.Pending[in.p] = in.enq - in.deliv
		if !in.closed.Load() {
			sn.AllClosed = false
		}
	}
	for p := range e.configured {
		sn.Configured = append(sn.Configured, p)
	}
	sort.Slice(sn.Configured, func(i, j int) bool { return sn.Configured[i] > sn.Configured[j] })
	e.tr.Snaps = append(e.tr.Snaps, sn)
}

// releaseOne issues the release of the live entry at position pos (caller: script goroutine).
func (e *exec) releaseOne(pos int) {
	e.mu.Lock()
	if len(e.live) == 0 {
		e.mu.Unlock()
		return
	}
	pos = pos % len(e.live)
	di := e.live[pos]
	e.live = append(e.live[:pos], e.live[pos+1:]...)
	e.tr.Deliveries[di].Released = true
	e.relSince.Add(1)
	d := e.tr.Deliveries[di]
	var c *call
	if e.s.Simple {
		c = e.calls[di]
		delete(e.calls, di)
	}
	e.mu.Unlock()
	if e.s.Simple {
		if c != nil {
			close(c.done)
		}
		return
	}
	e.queued.Add(1)
	e.wg.Add(1)
	go func() {
		defer e.wg.Done()
		defer e.queued.Add(-1)
		defer func() {
			if r := recover(); r != nil {
				e.mu.Lock()
				e.tr.ReleasePanics++
				e.mu.Unlock()
			}
		}()
		e.ad.release(d.Tag)
	}()
}

// ---------------------------------------------------------------- construction

func (e *exec) gateV2(it Item) {
	e.gate(nil, it)
}

func (e *exec) gate(ctx context.Context, it Item) {
	c := &call{done: make(chan struct{})}
	e.mu.Lock()
	c.di = e.deliveredLocked(it, 0, false)
	e.calls[c.di] = c
	e.mu.Unlock()
	if ctx != nil {
		select {
		case <-c.done:
		case <-ctx.Done():
			if e.s.HandleLag > 0 {
				// a handler that honours its context but needs a moment to wind up
				time.Sleep(time.Duration(e.s.HandleLag))
			}
			e.mu.Lock()
			// handler interrupted by its context: the call ends, the item is no longer in processing
			for i, di := range e.live {
				if di == c.di {
					e.live = append(e.live[:i], e.live[i+1:]...)
					break
				}
			}
			delete(e.calls, c.di)
			e.mu.Unlock()
		case <-e.quit:
		}
		return
	}
	select {
	case <-c.done:
	case <-e.quit:
	}
}

func (e *exec) build() error {
	s := e.s
	chans := map[uint]<-chan Item{}
	for _, ic := range s.Ins {
		in := e.newInput(ic.P, ic.Cap)
		e.inputs[ic.P] = in
		e.everSet[ic.P] = true
		e.configured[ic.P] = true
		chans[ic.P] = in.ch
		e.write(in, ic.Prefill)
	}
	// let the producers fill the buffers before the discipline exists
	e.wait()
	switch {
	case s.Ver == 2 && !s.Simple:
		d, err := priority.New(priority.Opts[Item]{Divider: e.dividerV2(), HandlersQuantity: s.H, Inputs: chans})
		if err != nil {
			return err
		}
		out := d.Output()
		e.ad = adapter{
			tryRecv: func() (Item, uint, bool, bool) {
				select {
				case pr, ok := <-out:
					if !ok {
						return Item{}, 0, false, true
					}
					return pr.Item, pr.Priority, true, false
				default:
					return Item{}, 0, false, false
				}
			},
			release: func(tag uint) { d.Release(tag) },
			errCh:   d.Err,
			outLen:  func() int { return len(out) },
		}
	case s.Ver == 2 && s.Simple:
		d, err := simple.New(simple.Opts[Item]{Divider: e.dividerV2(), Handle: e.gateV2, HandlersQuantity: s.H, Inputs: chans})
		if err != nil {
			return err
		}
		e.ad = adapter{errCh: d.Err}
	case s.Ver == 1 && !s.Simple:
		out := make(chan v1.Prioritized[Item], s.OutCap)
		fb := make(chan uint, s.FbCap)
		ctx, cancel := context.WithCancel(context.Background())
		if s.PreCancel {
			cancel() // the discipline is created with a context that is already cancelled
		}
		d, err := v1.New(v1.Opts[Item]{Ctx: ctx, Divider: e.dividerV1(), Feedback: fb, HandlersQuantity: s.H, Inputs: chans, Output: out})
		if err != nil {
			cancel()
			return err
		}
		e.ad = adapter{
			tryRecv: func() (Item, uint, bool, bool) {
				select {
				case pr := <-out:
					return pr.Item, pr.Priority, true, false
				default:
					return Item{}, 0, false, false
				}
			},
			release: func(tag uint) {
				select {
				case fb <- tag:
				case <-e.quit:
				}
			},
			errCh:       d.Err,
			outLen:      func() int { return len(out) },
			addInput:    d.AddInput,
			removeInput: d.RemoveInput,
			gstop:       d.GracefulStop,
			stop:        d.Stop,
			cancel:      cancel,
		}
	default:
		ctx, cancel := context.WithCancel(context.Background())
		if s.PreCancel {
			cancel()
		}
		d, err := v1.NewSimple(v1.SimpleOpts[Item]{Ctx: ctx, Divider: e.dividerV1(), Handle: e.gate, HandlersQuantity: s.H, Inputs: chans})
		if err != nil {
			cancel()
			return err
		}
		e.ad = adapter{errCh: d.Err, gstop: d.GracefulStop, stop: d.Stop, cancel: cancel}
	}
	e.created.Store(true)
	return nil
}

// helper runs a blocking control call on its own goroutine.
func (e *exec) helper(f func()) {
	e.wg.Add(1)
	go func() {
		defer e.wg.Done()
		defer func() { _ = recover() }()
		f()
	}()
}

// ---------------------------------------------------------------- ops

func (e *exec) doOp(op Op) {
	noop := func() { e.tr.Noops++ }
	switch op.K {
	case "W":
		in := e.inputs[op.P]
		if in == nil || in.closeReq || op.N <= 0 {
			noop()
			return
		}
		e.write(in, op.N) // producers of removed channels keep pushing
		e.wait()
	case "C":
		if op.M > 0 {
			// all inputs of priority P and above at once
			for _, in := range e.inputs {
				if in.p >= op.P && !in.closeReq && !in.removed.Load() {
					in.closeReq = true
					in.cmds <- wcmd{close: true}
				}
			}
			e.wait()
			return
		}
		in := e.inputs[op.P]
		if in == nil || in.closeReq || in.removed.Load() {
			noop()
			return
		}
		in.closeReq = true
		in.cmds <- wcmd{close: true}
		e.wait()
	case "D":
		e.drain()
		e.snapshot(false)
	case "R":
		e.wait()
		if e.recvAvailable(op.N) == 0 {
			noop()
		}
		e.wait()
	case "F":
		if len(op.Picks) == 0 || e.liveLen() == 0 || e.isTerminated() {
			noop()
			return
		}
		for _, pk := range op.Picks {
			if e.liveLen() == 0 {
				break
			}
			e.releaseOne(abs(pk))
			e.wait()
		}
	case "FM":
		if len(op.Picks) == 0 || e.liveLen() == 0 || e.isTerminated() {
			noop()
			return
		}
		for _, pk := range op.Picks {
			if e.liveLen() == 0 {
				break
			}
			e.releaseOne(abs(pk))
		}
		e.wait()
	case "FP":
		// release the oldest (N=0) or newest (N=1) in-flight item of priority P
		e.mu.Lock()
		pos := -1
		for i, di := range e.live {
			if e.tr.Deliveries[di].It.P == op.P {
				pos = i
				if op.N == 0 {
					break
				}
			}
		}
		term := e.terminated
		e.mu.Unlock()
		if pos < 0 || term {
			noop()
			return
		}
		e.releaseOne(pos)
		e.wait()
	case "T":
		if op.N <= 0 {
			noop()
			return
		}
		time.Sleep(time.Duration(op.N))
		e.wait()
	case "A":
		if e.ad.addInput == nil || e.stopIssued || e.ctlPending(op.P) {
			noop()
			return
		}
		old := e.inputs[op.P]
		if old != nil && !old.removed.Load() {
			old.replaced = true
		} else {
			old = nil
		}
		in := e.newInput(op.P, op.N)
		in.unreg.Store(true)
		e.write(in, op.M)
		e.wait()
		e.mu.Lock()
		e.everSet[op.P] = true
		delete(e.removedSet, op.P)
		e.inputs[op.P] = in
		ev := len(e.tr.Inputs)
		e.tr.Inputs = append(e.tr.Inputs, InputEvent{Kind: "add", P: op.P, Gen: in.gen, IssuedOp: int(e.opIdx.Load())})
		e.mu.Unlock()
		e.helper(func() {
			e.ad.addInput(in.ch, op.P)
			e.mu.Lock()
			in.unreg.Store(false)
			e.configured[op.P] = true
			e.tr.Inputs[ev].Returned = true
			e.tr.Inputs[ev].ReturnedAt = e.now()
			e.tr.Inputs[ev].DelivAtRet = len(e.tr.Deliveries)
			if old != nil {
				e.tr.Inputs[ev].OldGen = old.gen
				e.tr.Inputs[ev].OldReadsAtRet = old.readsHi()
			}
			e.mu.Unlock()
		})
		e.wait()
	case "X":
		in := e.inputs[op.P]
		if e.ad.removeInput == nil || in == nil || in.removed.Load() || e.stopIssued || e.ctlPending(op.P) {
			noop()
			return
		}
		e.mu.Lock()
		ev := len(e.tr.Inputs)
		e.tr.Inputs = append(e.tr.Inputs, InputEvent{Kind: "remove", P: op.P, Gen: in.gen, IssuedOp: int(e.opIdx.Load())})
		e.mu.Unlock()
		e.helper(func() {
			e.ad.removeInput(op.P)
			e.mu.Lock()
			in.removed.Store(true)
			e.removedSet[op.P] = true
			delete(e.configured, op.P)
			e.tr.Inputs[ev].Returned = true
			e.tr.Inputs[ev].ReturnedAt = e.now()
			e.tr.Inputs[ev].ReadsAtRet = in.readsHi()
			e.mu.Unlock()
		})
		e.wait()
	case "G":
		if e.ad.gstop == nil || e.gstopAsked || e.stopIssued {
			noop()
			return
		}
		e.gracefulStop()
		e.wait()
		if op.N == 2 {
			// a second GracefulStop() while the first one is pending ("request" from one goroutine,
			// "wait for it" from another): it, too, may only return once termination is complete
			e.gracefulStop()
			e.wait()
		}
	case "S", "K":
		if e.ad.stop == nil || e.stopIssued {
			noop()
			return
		}
		e.stop(op.K, op.N)
	default:
		noop()
	}
}

func (e *exec) faulted() bool {
	e.mu.Lock()
	defer e.mu.Unlock()
	return e.tr.FaultCall > 0 && !e.tr.FaultAtCreate
}

func (e *exec) liveLen() int {
	e.mu.Lock()
	defer e.mu.Unlock()
	return len(e.live)
}

func (e *exec) isTerminated() bool {
	e.mu.Lock()
	defer e.mu.Unlock()
	return e.terminated
}

// ctlPending: an AddInput/RemoveInput call for this priority has not returned yet. Two
// outstanding calls for one priority have no defined order, so the script does not
// issue a second one.
func (e *exec) ctlPending(p uint) bool {
	e.mu.Lock()
	defer e.mu.Unlock()
	for _, ev := range e.tr.Inputs {
		if ev.P == p && !ev.Returned {
			return true
		}
	}
	return false
}

func abs(x int) int {
	if x < 0 {
		return -x
	}
	return x
}

func (e *exec) gracefulStop() {
	e.mu.Lock()
	e.gstopAsked = true
	e.tr.GStopIssuedAt = e.now()
	e.mu.Unlock()
	e.helper(func() {
		e.ad.gstop()
		if e.cleanup.Load() {
			return // released by the harness's own teardown (context cancelled): not the discipline's doing
		}
		e.mu.Lock()
		e.tr.GStopReturned = true
		e.markTerminatedLocked("GracefulStop returned")
		e.mu.Unlock()
	})
}

// stop issues Stop() or cancels the context, waits for completion and probes that
// nothing more is delivered afterwards.
func (e *exec) stop(kind string, n int) {
	e.wait()
	e.stopA.Store(true)
	e.mu.Lock()
	e.stopIssued = true
	e.tr.StopIssuedAt = e.now()
	e.tr.StopIssuedOp = int(e.opIdx.Load())
	e.tr.StopMode = map[string]string{"S": "stop", "K": "cancel"}[kind]
	e.tr.StopInFlight = len(e.live)
	if e.ad.outLen != nil && e.s.OutCap >= 0 {
		e.tr.StopBlockedOut = e.ad.outLen() == e.s.OutCap
	}
	e.mu.Unlock()
	if kind == "K" {
		e.ad.cancel()
		// cancellation alone must terminate the discipline (Err() closes) within bounded virtual
		// time; Stop() is only called afterwards, "to wait for completion"
		for i := 0; i < 50; i++ {
			e.settleOnce()
			e.pollErr()
			e.mu.Lock()
			closed := e.tr.ErrClosed
			e.mu.Unlock()
			if closed {
				break
			}
		}
		e.mu.Lock()
		closed := e.tr.ErrClosed
		e.mu.Unlock()
		if !closed && e.s.HandleLag > 0 {
			// handlers that need HandleLag to return after the cancellation may each still take the
			// items buffered between the discipline and them, one after another
			time.Sleep(time.Duration(e.s.HandleLag) * time.Duration(2*e.s.H+8))
			e.wait()
			e.pollErr()
		}
		e.mu.Lock()
		e.tr.CancelTookEffect = e.tr.ErrClosed
		e.mu.Unlock()
	}
	calls := 1
	if n == 2 {
		calls = 2 // two overlapping Stop() calls: each of them must only return once termination is complete
	}
	for c := 0; c < calls; c++ {
		e.helper(func() {
			e.ad.stop() // documented way to wait for completion after a cancel as well
			if e.cleanup.Load() {
				return // released by the harness's own teardown (context cancelled): not the discipline's doing
			}
			e.mu.Lock()
			e.termA.Store(true)
			if !e.tr.StopReturned {
				e.tr.StopReturned = true
				e.tr.StopReturnedAt = e.now()
				if e.ad.outLen != nil {
					e.tr.StopOutLen = e.ad.outLen()
				}
			}
			if r := len(e.calls); r > e.tr.HandleRunningAfterStop {
				e.tr.HandleRunningAfterStop = r
			}
			e.terminated = true
			e.mu.Unlock()
		})
	}
	// bounded wait on the virtual clock: Stop must return without any release
	for i := 0; i < 50; i++ {
		e.settleOnce()
		e.mu.Lock()
		ret := e.tr.StopReturned
		e.mu.Unlock()
		if ret {
			break
		}
	}
	e.mu.Lock()
	returned := e.tr.StopReturned
	e.mu.Unlock()
	if !returned && e.s.HandleLag > 0 {
		time.Sleep(time.Duration(e.s.HandleLag) * time.Duration(2*e.s.H+8))
		e.wait()
		e.mu.Lock()
		returned = e.tr.StopReturned
		e.mu.Unlock()
	}
	if !returned {
		return
	}
	// after Stop returned nothing more may be written to the output: offer more data, wait, look
	for _, in := range e.inputs {
		if !in.closeReq && !in.removed.Load() {
			e.write(in, 3)
		}
	}
	for i := 0; i < 6; i++ {
		e.settleOnce()
	}
	e.recvAvailable(-1)
	e.mu.Lock()
	if e.tr.AfterStopRecv > e.tr.StopOutLen {
		e.tr.AfterStopNew = e.tr.AfterStopRecv - e.tr.StopOutLen
	}
	if n := len(e.calls); n > e.tr.HandleRunningAfterStop {
		e.tr.HandleRunningAfterStop = n
	}
	e.mu.Unlock()
	e.pollErr()
}

// hold lets d virtual ns pass in growing steps. A discipline that waits for the releases blocked
// on a channel lets the fake clock jump; one that polls (every virtual ns) makes each step cost
// real time - then the rest of the hold is skipped, it would only burn the case's budget.
func (e *exec) hold(d int64) {
	step := int64(1000)
	for left := d; left > 0; {
		if step > left {
			step = left
		}
		rt0 := realNow()
		time.Sleep(time.Duration(step))
		e.wait()
		left -= step
		if realNow()-rt0 > int64(5*time.Millisecond) {
			return
		}
		step *= 10
	}
}

// realNow is the real wall clock in ns (the time package is faked inside a bubble).
func realNow() int64 {
	var tv syscall.Timeval
	_ = syscall.Gettimeofday(&tv)
	return tv.Sec*1e9 + tv.Usec*1e3
}

// epilogue: orderly end of a run that was not stopped.
func (e *exec) epilogue() {
	e.opIdx.Store(int64(len(e.s.Ops)))
	if e.s.Fault != nil {
		// Scripts with a fault plan: first release everything without closing any input. If the
		// fault has been injected by then, the discipline must terminate (and leave no goroutine
		// behind) with its inputs still open.
		idle := 0
		for round := 0; round < 4000 && !e.isTerminated() && idle < 3; round++ {
			got := e.drain()
			e.snapshot(true)
			if e.isTerminated() {
				break
			}
			if e.liveLen() > 0 {
				e.releaseOne(0)
				e.wait()
				idle = 0
				continue
			}
			if got == 0 {
				idle++
			}
		}
		e.mu.Lock()
		e.tr.FaultBeforeClose = e.tr.FaultCall > 0 && !e.tr.FaultAtCreate
		e.tr.FaultTermOpenInputs = e.terminated
		e.mu.Unlock()
		if e.isTerminated() {
			return
		}
	}
	for _, in := range e.inputs {
		if !in.closeReq && !in.removed.Load() {
			in.closeReq = true
			in.cmds <- wcmd{close: true}
		}
	}
	e.wait()
	if e.ad.gstop != nil && !e.gstopAsked {
		e.gracefulStop()
	}
	stuck := 0
	held := false
	for round := 0; round < 100000; round++ {
		got := e.drain()
		e.snapshot(true)
		if e.isTerminated() {
			return
		}
		if !held && e.s.EpiHold > 0 && e.liveLen() > 0 {
			held = true
			e.hold(e.s.EpiHold)
			e.drain()
			if e.isTerminated() {
				return
			}
		}
		if n := e.liveLen(); n > 0 {
			stuck = 0
			pos := 0
			if e.s.EpiNewest {
				pos = n - 1
			}
			e.releaseOne(pos)
			e.wait()
			continue
		}
		if got > 0 {
			stuck = 0
			continue
		}
		stuck++
		if stuck > 20 {
			e.mu.Lock()
			pend := 0
			for _, in := range e.inputs {
				if !in.removed.Load() && !in.unreg.Load() {
					pend += in.enq - in.deliv
				}
			}
			e.tr.EpilogueStuck = fmt.Sprintf("nothing in flight, %d written items undelivered, inputs closed, no delivery and no termination during %d settle rounds of %dns", pend, stuck*2, e.delta)
			e.mu.Unlock()
			return
		}
	}
}

// Execute runs a script inside a bubble.
func execute1(t *testing.T, s Script, leakScan bool, budget time.Duration) Trace {
	tr := Trace{GStopIssuedAt: -1, StopIssuedAt: -1, MaxPerPrio: map[uint]int{}}
	var before map[string]string
	if leakScan {
		before = bubble.LibGoroutines()
	}
	var ep atomic.Pointer[exec]
	res := bubble.RunBudget(t, budget, func() {
		e := &exec{s: s, tr: &tr, epoch: time.Now(), quit: make(chan struct{}), inputs: map[uint]*input{}, gens: map[uint]int{},
			calls: map[int]*call{}, removedSet: map[uint]bool{}, everSet: map[uint]bool{}, configured: map[uint]bool{}, leakScan: leakScan, before: before}
		ep.Store(e)
		unbuf := 0
		for _, in := range s.Ins {
			if in.Cap == 0 {
				unbuf++
			}
		}
		for _, op := range s.Ops {
			if op.K == "A" && op.N == 0 {
				unbuf++
			}
		}
		e.delta = time.Duration(2*(1+4*unbuf) + 1)
		e.need = map[uint]int{}
		for _, in := range s.Ins {
			e.need[in.P] += in.Prefill + 3
		}
		for _, op := range s.Ops {
			switch op.K {
			case "W":
				e.need[op.P] += op.N
			case "A":
				e.need[op.P] += op.M + 3
			}
		}
		defer func() {
			scan := func() {
				e.wait()
				time.Sleep(10)
				e.wait()
				e.mu.Lock()
				e.scanLocked("at the end of the run")
				e.mu.Unlock()
			}
			// The discipline has terminated (on its own, or Stop() has returned): nothing of it
			// may be left, and that must not depend on the context being cancelled afterwards.
			scanned := false
			if leakScan && (tr.Terminated || tr.StopReturned) {
				scan()
				scanned = true
			}
			// clean up: stop the discipline if it still runs, end the helpers
			e.cleanup.Store(true)
			if e.ad.cancel != nil {
				e.ad.cancel()
			}
			e.mu.Lock()
			for di, c := range e.calls {
				close(c.done)
				delete(e.calls, di)
			}
			e.mu.Unlock()
			close(e.quit)
			e.wg.Wait()
			for _, in := range e.all {
				tr.InStat = append(tr.InStat, InStat{P: in.p, Gen: in.gen, Cap: in.cap, Enq: in.enq, WDone: int(in.wdone.Load()), Closed: in.closed.Load(), Removed: in.removed.Load(), Replaced: in.replaced, Delivered: in.deliv, Reads: in.reads()})
			}
			for i := range tr.Inputs {
				if tr.Inputs[i].Kind == "add" && !tr.Inputs[i].Returned {
					for j := range tr.InStat {
						// the channel it was meant to replace stayed registered
						if tr.InStat[j].P == tr.Inputs[i].P && tr.InStat[j].Gen == tr.Inputs[i].Gen-1 {
							tr.InStat[j].Replaced = false
						}
						if tr.InStat[j].P == tr.Inputs[i].P && tr.InStat[j].Gen == tr.Inputs[i].Gen {
							tr.InStat[j].Unregistered = true
						}
					}
				}
				for _, in := range e.all {
					if tr.Inputs[i].Kind == "remove" && in.p == tr.Inputs[i].P && in.gen == tr.Inputs[i].Gen {
						tr.Inputs[i].ReadsFinal = in.reads()
					}
					if tr.Inputs[i].Kind == "add" && tr.Inputs[i].OldGen != 0 && in.p == tr.Inputs[i].P && in.gen == tr.Inputs[i].OldGen {
						tr.Inputs[i].OldReadsFinal = in.reads()
					}
				}
			}
			if leakScan && !scanned && (tr.Terminated || tr.StopReturned) {
				scan()
			}
		}()
		if err := e.build(); err != nil {
			tr.NewErr = err.Error()
			return
		}
		if s.PreCancel && s.Ver == 1 {
			// cancelled before it was created: it must be found terminated, Stop() must return, and
			// nothing of it may be left
			// (no waiting for quiescence in between: a goroutine that keeps running would hide the
			// very observations that attribute it)
			e.stopA.Store(true)
			e.mu.Lock()
			e.stopIssued = true
			e.tr.StopIssuedAt = e.now()
			e.tr.StopMode = "cancel"
			e.mu.Unlock()
			for errc := e.ad.errCh(); ; {
				if _, ok := <-errc; !ok {
					break
				}
			}
			e.mu.Lock()
			e.tr.ErrClosed = true
			if e.tr.ErrVal == "" {
				e.tr.ErrVal = "nil-closed"
			}
			e.tr.CancelTookEffect = true
			e.markTerminatedLocked("Err() closed")
			e.mu.Unlock()
			e.ad.stop()
			e.mu.Lock()
			e.tr.StopReturned = true
			e.tr.StopReturnedAt = e.now()
			e.mu.Unlock()
			e.termA.Store(true)
			return
		}
		for i, op := range s.Ops {
			e.opIdx.Store(int64(i))
			e.doOp(op)
			tr.OpsDone++
			if e.stopIssued {
				break
			}
		}
		if e.stopIssued || s.Epilogue == "none" {
			return
		}
		e.epilogue()
		e.pollErr()
	})
	if res.Spin {
		// the abandoned bubble may still be writing to tr: report nothing but the verdict
		sp := Trace{Spin: true, Deadlock: res.Deadlock, GStopIssuedAt: -1, StopIssuedAt: -1, MaxPerPrio: map[uint]int{}}
		if e := ep.Load(); e != nil {
			sp.SpinAfterStop = e.stopA.Load()
			sp.SpinAfterTerm = e.termA.Load()
			sp.SpinAfterFault = e.faultA.Load()
		}
		return sp
	}
	tr.Deadlock = res.Deadlock
	tr.HarnessPanic = res.Panic
	return tr
}

// Execute runs the script inside a bubble. A case that exceeds the real-time budget (a
// spinning goroutine) is executed once more with a larger budget before it is reported.
func Execute(t *testing.T, s Script, leakScan bool) Trace {
	b := bubble.CaseBudget()
	tr := execute1(t, s, leakScan, b)
	if tr.Spin && b > 0 {
		tr = execute1(t, s, leakScan, 3*b)
		tr.RetriedAfterSpin = true
	}
	return tr
}
