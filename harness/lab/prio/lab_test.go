package prio

import (
	"fmt"
	"os"
	"strings"
	"testing"

	"cqosverif/internal/evid"

	"pgregory.net/rapid"
)

func summary(s Script, tr Trace) any {
	snaps := tr.Snaps
	if len(snaps) > 4 {
		snaps = snaps[:4]
	}
	return map[string]any{
		"deliveries": len(tr.Deliveries), "max_in_flight": tr.MaxInFlight, "terminated": tr.Terminated, "divider_calls": tr.DivCalls,
		"first_snapshots": snaps, "noop_ops": tr.Noops, "ops_done": tr.OpsDone, "err": tr.ErrVal, "new_err": tr.NewErr,
		"stop_returned": tr.StopReturned, "fault_call": tr.FaultCall,
	}
}

type spec struct {
	id, rule string
	opts     GenOpts
	leak     bool
	check    func(Script, Trace) error
	checkK   func(Script, Trace) (error, string) // check that also names the known finding a failure belongs to
	nontriv  func(Script, Trace) bool
	skip     func(Script, Trace) string
	pre      func(thorough bool, each func(s Script, label string) bool)
	repeat   bool // thorough: execute every script 3 times (wake-up order at one instant is random)
	hangMine bool // a case that never finishes (spinning goroutine) violates this property
}

func knownListed(id string) bool {
	for _, k := range strings.Split(os.Getenv("VERIF_KNOWN"), ",") {
		if k == id {
			return true
		}
	}
	return false
}

func run(t *testing.T, sp spec) {
	evid.Run(t, evid.Prop[Script]{
		ID:   sp.id,
		Rule: sp.rule,
		Gen: func(th bool) *rapid.Generator[Script] {
			o := sp.opts
			o.Thorough = th
			return Gen(o)
		},
		Pre: sp.pre,
		Run: func(s Script) evid.Outcome {
			reps := 1
			if sp.repeat && evid.Thorough() {
				reps = 3
			}
			var o evid.Outcome
			for i := 0; i < reps; i++ {
				o = runOnce(t, sp, s)
				if o.Err != nil || o.Skip != "" {
					return o
				}
			}
			return o
		},
	})
}

func runOnce(t *testing.T, sp spec, s Script) evid.Outcome {
	tr := Execute(t, s, sp.leak)
	o := evid.Outcome{Classes: Classes(s, tr), Summary: summary(s, tr),
		Counters: map[string]int{"script_ops_executed": tr.OpsDone, "script_ops_that_were_noops": tr.Noops, "deliveries": len(tr.Deliveries), "quiescent_snapshots": len(tr.Snaps), "divider_calls": tr.DivCalls}}
	if tr.HarnessPanic != "" {
		o.Skip = "harness panic (a defect of the harness, not a verdict): " + firstLine(tr.HarnessPanic)
		return o
	}
	if sp.id == "C19" && tr.Spin && tr.SpinAfterTerm {
		// termination had been observed and yet the run never became quiescent, twice: something of
		// the discipline is still running (a goroutine that spins)
		o.Err = fmt.Errorf("after termination was observed a goroutine keeps running and the run never becomes quiescent: %s", firstLine(tr.Deadlock))
		o.NoShrink = true
		return o
	}
	if sp.id == "C19" && tr.RetriedAfterSpin {
		o.Skip = "first attempt of the case was abandoned; its goroutines would be counted as leaks"
		return o
	}
	if tr.Spin && !sp.hangMine {
		o.Skip = "a goroutine spins and the case never finishes (decided by C06/C07/C16)"
		return o
	}
	if sp.skip != nil {
		if r := sp.skip(s, tr); r != "" {
			o.Skip = r
			return o
		}
	}
	o.NonTrivial = sp.nontriv(s, tr)
	if sp.checkK != nil {
		var k string
		o.Err, k = sp.checkK(s, tr)
		o.NoShrink = tr.Spin
		if o.Err != nil && k != "" && knownListed(sp.id+":"+k) {
			o.Known = "id=" + k + " " + knownText[k]
			o.Classes = append(o.Classes, "known-finding:"+k)
		}
		return o
	}
	o.Err = sp.check(s, tr)
	o.NoShrink = tr.Spin
	return o
}

func wedged(s Script, tr Trace) string {
	if tr.Deadlock != "" {
		return "run wedged (decided by C06/C07/C16)"
	}
	return ""
}

func rejected(s Script, tr Trace) string {
	if tr.NewErr != "" {
		return "configuration rejected by the constructor"
	}
	return ""
}

var allDiv = []string{"fair", "rate", "fairlow", "square"}
var libDiv = []string{"fair", "rate"}

func hasUnbufOrShort(s Script) bool {
	if len(s.Ins) == 0 {
		return false
	}
	for _, in := range s.Ins {
		if in.Cap == 0 {
			return true
		}
	}
	return false
}

func TestC01(t *testing.T) {
	run(t, spec{
		id:    "C01",
		rule:  "rapid-generated operation scripts (write / close / drain / receive n / release picked items one by one or as a group / let time pass / v1 AddInput RemoveInput GracefulStop) on v1 and v2, plain and simplified disciplines, dividers Fair, Rate and two custom sum-preserving ones, buffered and unbuffered inputs, H constructed from the smallest accepted value upward; the script goroutine is the only consumer and counts received-minus-release-issued after every receive, draining the output completely at quiescent points without releasing; thorough adds a bounded exhaustive enumeration of short op sequences; non-trivial = in-flight reached exactly H and a later release was followed by a further delivery; distinct = distinct script JSON",
		opts:  GenOpts{Vers: []int{1, 2}, Simple: []bool{false, false, true}, Dividers: allDiv, AddRemove: true, NoZero: false, V1AnyH: true, Many: true},
		check: CheckC01,
		skip:  rejected,
		pre: func(th bool, each func(Script, string) bool) {
			exhaustiveC01(th, each)
			exhaustiveAddRemove(th, each)
		},
		nontriv: func(s Script, tr Trace) bool {
			if uint(tr.MaxInFlight) != s.H {
				return false
			}
			// a delivery after some release, after H was reached
			reached := false
			cnt := 0
			for _, d := range tr.Deliveries {
				cnt++
				_ = d
			}
			rel := 0
			for _, d := range tr.Deliveries {
				if d.Released {
					rel++
				}
			}
			reached = rel > 0 && uint(cnt) > s.H
			return reached
		},
	})
}

func TestC02(t *testing.T) {
	run(t, spec{
		id:    "C02",
		rule:  "same script language as C01 (including v1 AddInput / RemoveInput: replacement of live and of already drained channels, re-adding) with unequal input lengths (0, 1, many), inputs closing at different times, capacities 0..64; every item is (priority of registration, channel generation, sequence number); oracle: tag equals the registration priority, per-channel sequence numbers arrive in order without gaps or repeats, nothing unknown is delivered, at normal termination every written item of every closed input was delivered (simplified disciplines: each item handled exactly once); non-trivial = at least 2 priorities delivered something and an input was unbuffered or inputs had different lengths, and the run terminated normally; distinct = distinct script JSON",
		opts:  GenOpts{Vers: []int{1, 2}, Simple: []bool{false, false, true}, Dividers: allDiv, NoZero: true, AddRemove: true, Many: true},
		check: CheckC02,
		skip:  rejected,
		nontriv: func(s Script, tr Trace) bool {
			ps := map[uint]bool{}
			for _, d := range tr.Deliveries {
				ps[d.It.P] = true
			}
			diff := false
			for _, a := range tr.InStat {
				for _, b := range tr.InStat {
					if a.Enq != b.Enq {
						diff = true
					}
				}
			}
			return len(ps) >= 2 && (hasUnbufOrShort(s) || diff) && tr.Terminated
		},
	})
}

// TestC02Elem : exactly-once delivery under the right priority for instantiations with a zero-size
// and a wide item type.
func TestC02Elem(t *testing.T) {
	evid.Run(t, evid.Prop[ElemCase]{
		ID:   "C02",
		Rule: "v1 and v2, plain and simplified, instantiated with struct{} items (only counts per priority observable) and with a 176-byte struct, 1..3 priorities, H in {6,7,12}, Fair/Rate, input capacity 0..32, 0..20 items per input, inputs closed after the writes, every item released at once; oracle: per-priority counts (wide: identity and tag) equal what was written, Err() yields nil, the run completes; non-trivial = at least 2 priorities with items; distinct = distinct case JSON",
		Gen:  GenElem,
		Run: func(c ElemCase) evid.Outcome {
			k := 0
			for _, x := range c.Counts {
				if x > 0 {
					k++
				}
			}
			return evid.Outcome{Err: CheckElem(t, c), NonTrivial: k >= 2, Classes: []string{fmt.Sprintf("v%d simple=%v", c.Ver, c.Simple), "elem:" + c.Elem}, Summary: "see script"}
		},
	})
}

func TestC05(t *testing.T) {
	run(t, spec{
		id:    "C05",
		rule:  "saturation scripts: every input buffered and prefilled with more items than the script can consume (capacity = prefill >= H + number of releases + 1; for v1 with an unbuffered output and a consumer that waits for quiescence after every receive also capacities 1..10 smaller than the shares, kept full by producers blocked on them), ops only drain / receive n / release one by one / release a group / let time pass, v1 and v2 plain, all four dividers, 1..6 priorities, H constructed from the minimum; oracle: share = divider(all priorities sorted, H); after every receive per-priority in-flight <= share, at every quiescent point with no release outstanding total == H and per-priority == share; thorough adds the bounded exhaustive enumeration of release orders; non-trivial = at least 2 priorities, a release group mixing priorities was issued, and the shares are unequal or H is not a multiple of n; distinct = distinct script JSON",
		opts:  GenOpts{Vers: []int{1, 2}, Simple: []bool{false}, Dividers: allDiv, Saturated: true},
		check: CheckC05,
		skip:  rejected,
		pre:   exhaustiveC05,
		nontriv: func(s Script, tr Trace) bool {
			if len(s.Ins) < 2 {
				return false
			}
			share := Share(s)
			uneq := s.H%uint(len(s.Ins)) != 0
			var first uint
			for i, in := range s.Ins {
				if i == 0 {
					first = share[in.P]
				} else if share[in.P] != first {
					uneq = true
				}
			}
			mixed := false
			for _, op := range s.Ops {
				if (op.K == "FM" || op.K == "F") && len(op.Picks) >= 2 {
					mixed = true
				}
			}
			return uneq && mixed && Saturated(s)
		},
	})
}

var knownText = map[string]string{
	"F4": "v1 accepts a configuration in which a configured priority has a zero strategic share; items of that priority are never delivered while it waits alone",
	"F5": "a priority that holds more than its strategic share and alone has data is not granted the vacant handlers while their division among the idle priorities leaves one of them without a handler: the round waits for further releases",
}

func itoa(n int) string {
	if n == 0 {
		return "0"
	}
	var b []byte
	for n > 0 {
		b = append([]byte{byte('0' + n%10)}, b...)
		n /= 10
	}
	return string(b)
}

func TestC06(t *testing.T) {
	run(t, spec{
		id:       "C06",
		hangMine: true,
		rule:     "sparse-arrival scripts (one active priority, alternating, late writers, unbuffered inputs, inputs closing at different times, H = minimum accepted and slightly above, skewed priority values, withheld and batched releases) on v1 and v2, plain and simplified, Fair and Rate; v1 configurations with a zero strategic share are excluded by construction (known finding F4) ; oracle on the owned clock: at a quiescent point with nothing in flight and data waiting something must have been delivered; a priority alone in having data and alone in flight holds all H handlers; releasing one item at a time in the epilogue delivers everything (no wedge); non-trivial = a quiescent point was seen with free handlers, data waiting and items in flight (the discipline waited for a further feedback), or a single priority was active, or an input was unbuffered, or H is the minimum; distinct = distinct script JSON",
		opts:     GenOpts{Vers: []int{1, 2}, Simple: []bool{false, false, true}, Dividers: libDiv, Sparse: true, NoZero: true, AddRemove: true, Many: true},
		checkK:   CheckC06,
		skip: func(s Script, tr Trace) string {
			if tr.NewErr != "" {
				return "configuration rejected by the constructor"
			}
			return ""
		},
		nontriv: func(s Script, tr Trace) bool {
			for _, sn := range tr.Snaps {
				if sn.Total > 0 && uint(sn.Total) < s.H && sumMap(sn.Pending) > 0 {
					return true
				}
			}
			active := map[uint]bool{}
			for _, d := range tr.Deliveries {
				active[d.It.P] = true
			}
			return (len(active) == 1 && len(s.Ins) > 1) || hasUnbufOrShort(s)
		},
	})
}

func TestC07(t *testing.T) {
	run(t, spec{
		id:       "C07",
		hangMine: true,
		repeat:   true,
		rule:     "scripts with all close orders (v1: also inputs removed or replaced instead of closed, with their items still in flight), releases withheld across time steps, inputs left open and silent, v1 GracefulStop issued early / in the middle / late, plain and simplified; oracle: termination observed (Output()/Err() closed, GracefulStop returned) implies every input closed and delivered and nothing unreleased (no Handle running), no Release() panics, Err() yields no error, and at a quiescent point where that condition holds termination has happened; non-trivial = a release or a close was withheld across a time step or drain, or an input stayed open and idle while everything else was finished; distinct = distinct script JSON",
		opts:     GenOpts{Vers: []int{1, 2}, Simple: []bool{false, false, true}, Dividers: libDiv, NoZero: true, AddRemove: true, Many: true, LongHold: true},
		check:    CheckC07,
		skip: func(s Script, tr Trace) string {
			if tr.NewErr != "" {
				return "configuration rejected by the constructor"
			}
			return ""
		},
		nontriv: func(s Script, tr Trace) bool {
			for _, sn := range tr.Snaps {
				if !sn.Epilogue && !sn.Terminated && sumMap(sn.Pending) == 0 && (sn.Total > 0 || !sn.AllClosed) && len(tr.Deliveries) > 0 {
					return true
				}
			}
			return false
		},
	})
}

func TestC15(t *testing.T) {
	run(t, spec{
		id:       "C15",
		hangMine: true,
		rule:     "priority-lab scripts with a wrapping divider that checks every call (strictly descending configured priorities, dividend <= H, v2 map non-nil) and, per fault plan, corrupts eligible call #k (k drawn 1..40, thorough: enumerated) by adding or removing 1..3 units while keeping the total non-zero; H may be below the constructor's minimum; oracle: contract of every call, v2 New returns ErrDividerBad for a creation fault and ErrHandlersQuantityTooSmall exactly when a share is zero, after a round fault no delivery beyond the items already in the output channel, Err() = ErrDividerBad, in-flight <= H, termination once everything is released; non-trivial = the fault hit a call made with items in flight; distinct = distinct script JSON",
		opts:     GenOpts{Vers: []int{1, 2}, Simple: []bool{false, false, false, true}, Dividers: allDiv, Fault: true, AnyH: true, AddRemove: true},
		check:    CheckC15,
		pre: func(th bool, each func(Script, string) bool) {
			enumerateFaults(th, each)
			exhaustiveAddRemove(th, each)
		},
		nontriv: func(s Script, tr Trace) bool {
			return tr.FaultCall > 0 && tr.FaultInFlight > 0
		},
	})
}

func TestC16(t *testing.T) {
	run(t, spec{
		id:       "C16",
		hangMine: true,
		repeat:   true,
		rule:     "v1 plain and simplified scripts with Stop() or context cancel inserted at a drawn (thorough: every) script position: before any data, mid-round, with 0..H items in flight and never released, with the output buffer full and nobody reading, producers blocked; oracle: Stop returns within 50 settle quanta of virtual time without any release (a spinning goroutine is caught by the real-time watchdog), afterwards further writes to the inputs produce no output beyond what already sat in the output channel, no Handle call is running, deliveries are an in-order duplicate-free subsequence; non-trivial = Stop/cancel issued with in-flight == H, or while the discipline was blocked on a full output, or before any delivery; distinct = distinct script JSON",
		opts:     GenOpts{Vers: []int{1}, Simple: []bool{false, false, true}, Dividers: libDiv, StopOps: true, AddRemove: true},
		check:    CheckC16,
		pre:      enumerateStops,
		nontriv: func(s Script, tr Trace) bool {
			return tr.Stopped() && (uint(tr.StopInFlight) == s.H || tr.StopBlockedOut || len(tr.Deliveries) == 0)
		},
	})
}

func TestC17(t *testing.T) {
	run(t, spec{
		id:       "C17",
		hangMine: true,
		repeat:   true,
		rule:     "v1 plain scripts with AddInput (new priority, replacement of a live channel, re-add after removal) and RemoveInput interleaved with writes, receives and releases, while producers keep writing to removed and replaced channels; H is chosen so that every subset of the priorities is served; oracle: the number of items read from a channel does not change after RemoveInput / a replacing AddInput returned, tags and per-channel order (C02), in-flight <= H across the history (C01), everything read is delivered exactly once, GracefulStop completes; non-trivial = a removal with items of that priority in flight or a replacement with undelivered data in the old channel; distinct = distinct script JSON",
		opts:     GenOpts{Vers: []int{1}, Simple: []bool{false}, Dividers: libDiv, AddRemove: true, NoZero: true},
		check:    CheckC17,
		nontriv: func(s Script, tr Trace) bool {
			for _, ev := range tr.Inputs {
				if !ev.Returned {
					continue
				}
				if ev.Kind == "remove" {
					return true
				}
				if ev.Kind == "add" && ev.OldGen != 0 {
					return true
				}
			}
			return false
		},
	})
}

func TestC19(t *testing.T) {
	run(t, spec{
		id:    "C19",
		rule:  "priority lab: goroutine dump filtered for goroutines created by the module after termination, reached normally (v2: inputs closed and all released; v1: GracefulStop), by Stop/cancel at arbitrary points, or by a divider fault, plain and simplified (handler goroutines); non-trivial = terminated through Stop/cancel/fault or with items in flight shortly before; distinct = distinct script JSON",
		opts:  GenOpts{Vers: []int{1, 2}, Simple: []bool{false, true}, Dividers: libDiv, StopOps: true, StopHalf: true, Fault: true, NoZero: true},
		leak:  true,
		check: CheckC19,
		skip:  rejected,
		nontriv: func(s Script, tr Trace) bool {
			return (tr.Terminated || tr.StopReturned) && (tr.Stopped() || tr.FaultCall > 0 || tr.MaxInFlight > 0)
		},
	})
}

func TestC20(t *testing.T) {
	run(t, spec{
		id:    "C20",
		rule:  "priority lab under -race: producers, handler/release helpers, control calls (AddInput, RemoveInput, GracefulStop, Stop) and the discipline goroutine; non-trivial = at least H deliveries",
		opts:  GenOpts{Vers: []int{1, 2}, Simple: []bool{false, true}, Dividers: libDiv, StopOps: true, StopHalf: true, AddRemove: true, NoZero: true},
		check: func(Script, Trace) error { return nil },
		nontriv: func(s Script, tr Trace) bool {
			return uint(len(tr.Deliveries)) >= s.H
		},
	})
}
