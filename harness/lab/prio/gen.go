package prio

import (
	"sort"

	"pgregory.net/rapid"
)

// GenOpts selects the part of the script space a property needs. All options keep the
// scripts inside the documented input domain.
type GenOpts struct {
	Vers      []int    // 1, 2
	Simple    []bool   // plain / simplified
	Dividers  []string // fair rate fairlow square
	Saturated bool     // C05: buffered, prefilled inputs that never run empty; only receive/release/time ops
	Fault     bool     // C15: divider fault plan
	AnyH      bool     // C15: H may be below the minimum the constructor accepts
	V1AnyH    bool     // v1 accepts every non-zero H: also generate an H that leaves a priority without a share
	StopOps   bool     // C16: v1 Stop / cancel inserted
	StopHalf  bool     // with StopOps: only about half of the v1 scripts are stopped, the others end gracefully
	AddRemove bool     // C17: v1 AddInput / RemoveInput ops
	NoZero    bool     // exclude configurations in which a configured priority has a zero strategic share (v1 finding F4)
	Sparse    bool     // C06: sparse arrivals, minimal H, single active priority
	LongHold  bool     // the consumer may sit on the last items for seconds to an hour before releasing them
	Many      bool     // occasionally a script with more than 64 inputs (Fair, simple ops)
	Thorough  bool
}

func pick[T any](t *rapid.T, label string, xs ...T) T { return rapid.SampledFrom(xs).Draw(t, label) }

var smallPool = []uint{1, 2, 3, 4, 5, 7}
var widePool = []uint{1, 2, 3, 4, 5, 7, 10, 20, 50, 70, 100, 1000}

func genPrios(t *rapid.T, maxN int, wide bool) []uint {
	n := rapid.IntRange(1, maxN).Draw(t, "nprio")
	pool := smallPool
	if wide {
		pool = widePool
	}
	perm := rapid.Permutation(pool).Draw(t, "prios")
	ps := append([]uint(nil), perm[:min(n, len(perm))]...)
	sort.Slice(ps, func(i, j int) bool { return ps[i] > ps[j] })
	return ps
}

func filled(div string, ps []uint, h uint) bool {
	m := map[uint]uint{}
	baseDivider(div)(ps, h, m)
	for _, p := range ps {
		if m[p] == 0 {
			return false
		}
	}
	return true
}

// minH returns the smallest H for which every listed priority gets at least one handler.
func minH(div string, ps []uint) uint {
	for h := uint(1); h < 20000; h++ {
		if filled(div, ps, h) {
			return h
		}
	}
	return 0
}

// allSubsetsFilled: every non-empty subset of ps is filled for h (the library's "non fatal").
func allSubsetsFilled(div string, ps []uint, h uint) bool {
	n := len(ps)
	for mask := 1; mask < 1<<n; mask++ {
		var sub []uint
		for i := 0; i < n; i++ {
			if mask&(1<<i) != 0 {
				sub = append(sub, ps[i])
			}
		}
		if !filled(div, sub, h) {
			return false
		}
	}
	return true
}

// Gen draws priority-lab scripts.
func Gen(o GenOpts) *rapid.Generator[Script] {
	return rapid.Custom(func(t *rapid.T) Script {
		var s Script
		s.Ver = rapid.SampledFrom(o.Vers).Draw(t, "ver")
		s.Simple = rapid.SampledFrom(o.Simple).Draw(t, "simple")
		s.Div = rapid.SampledFrom(o.Dividers).Draw(t, "div")
		s.Epilogue = "normal"
		s.EpiNewest = rapid.Bool().Draw(t, "epinewest")
		// such a script costs about half a second of real time: about 1 case in 400 (quick) or 60
		// (thorough). rapid draws the bit length of an integer uniformly, so a value of the top
		// length class of 0..511 comes up once in about 2560 draws.
		manyWidth := 16
		if o.Thorough {
			manyWidth = 43
		}
		if v := rapid.IntRange(0, 511).Draw(t, "many"); o.Many && v >= 256 && v < 256+manyWidth {
			return genMany(t, s)
		}
		wide := rapid.IntRange(0, 9).Draw(t, "wide") == 0
		maxN := 4
		if o.Thorough {
			maxN = 6
		}
		if s.Div == "square" {
			wide = false
		}
		ps := genPrios(t, maxN, wide)
		if mh0 := minH(s.Div, ps); mh0 == 0 || mh0 > 150 || (mh0 > 64 && !o.Thorough) {
			// keep the number of handlers (hence items in flight per script) moderate
			ps = ps[:1]
		}
		if (s.Div == "fair" || s.Div == "fairlow") && rapid.IntRange(0, 9).Draw(t, "zeroprio") == 0 {
			// 0 is a priority value like any other (a uint map key); only dividers that do not
			// compute with the values give it a share
			ps[len(ps)-1] = 0
		}
		if (s.Div == "fair" || s.Div == "fairlow") && rapid.IntRange(0, 9).Draw(t, "hugeprio") == 0 {
			// priority values are plain uint map keys: the top of the range is as valid as 3, 2, 1
			// (only for the dividers that do not compute with the values)
			ps[0] = pick(t, "hugeval", ^uint(0), uint(1)<<63, uint(1)<<63-1, uint(1)<<32)
		}
		// priorities that may be added later (v1) come from the same pool
		var extra []uint
		if o.AddRemove && s.Ver == 1 && !s.Simple {
			for _, p := range smallPool {
				found := false
				for _, q := range ps {
					if q == p {
						found = true
					}
				}
				if !found && len(extra) < 2 {
					extra = append(extra, p)
				}
			}
		}
		all := append(append([]uint(nil), ps...), extra...)
		sort.Slice(all, func(i, j int) bool { return all[i] > all[j] })

		// H: constructed from the smallest accepted value upward
		mh := minH(s.Div, ps)
		if o.NoZero || (o.AddRemove && s.Ver == 1) {
			// every subset that can be configured must be filled
			for h := mh; h < mh+4000; h++ {
				if allSubsetsFilled(s.Div, all, h) {
					mh = h
					break
				}
			}
		}
		if mh > 200 {
			// serving every subset of widely spread priorities needs hundreds of handlers: keep the
			// script affordable by dropping to the highest priority alone
			ps = ps[:1]
			all = append(append([]uint(nil), ps...), extra...)
			sort.Slice(all, func(i, j int) bool { return all[i] > all[j] })
			mh = minH(s.Div, ps)
			if o.NoZero || (o.AddRemove && s.Ver == 1) {
				for h := mh; h < mh+4000; h++ {
					if allSubsetsFilled(s.Div, all, h) {
						mh = h
						break
					}
				}
			}
		}
		var cands []uint
		for h := mh; h <= mh+24 && len(cands) < 12; h++ {
			ok := filled(s.Div, ps, h)
			if o.NoZero || (o.AddRemove && s.Ver == 1) {
				ok = allSubsetsFilled(s.Div, all, h)
			}
			if ok {
				cands = append(cands, h)
			}
		}
		if len(cands) == 0 {
			cands = []uint{mh}
		}
		idx := rapid.IntRange(0, len(cands)-1).Draw(t, "hidx")
		if rapid.IntRange(0, 2).Draw(t, "hmin") == 0 || o.Sparse && rapid.Bool().Draw(t, "hmin2") {
			idx = 0
		}
		s.H = cands[idx]
		if o.AnyH && rapid.IntRange(0, 3).Draw(t, "anyh") == 0 {
			s.H = uint(rapid.IntRange(1, int(mh)+2).Draw(t, "hraw"))
		}
		if (o.Saturated || o.V1AnyH) && s.Ver == 1 && rapid.IntRange(0, 3).Draw(t, "v1anyh") == 0 {
			// the v1 constructor accepts every non-zero H, also one that leaves a priority without a share
			s.H = uint(rapid.IntRange(1, int(mh)+1).Draw(t, "hraw1"))
		}
		if s.Ver == 1 && !s.Simple {
			s.OutCap = pick(t, "outcap", 0, 0, 1, 2, 4, 16, 100)
			s.FbCap = pick(t, "fbcap", 0, 0, 1, 2, 4, 16, 100)
		}

		if s.Ver == 2 && !s.Simple {
			s.ErrLate = rapid.IntRange(0, 2).Draw(t, "errlate") == 0
		}
		if o.LongHold {
			s.EpiHold = pick(t, "epihold", int64(0), 0, 0, 1000000, 5000000001, 61000000000, 3600000000000)
		}
		// ops
		maxOps := 24
		if o.Thorough {
			maxOps = 48
		}
		nops := rapid.IntRange(1, maxOps).Draw(t, "nops")
		h := int(s.H)

		if o.Saturated {
			rel := 0
			for i := 0; i < nops; i++ {
				switch rapid.IntRange(0, 9).Draw(t, "k") {
				case 0, 1, 2:
					s.Ops = append(s.Ops, Op{K: "D"})
				case 3:
					s.Ops = append(s.Ops, Op{K: "R", N: rapid.IntRange(1, h).Draw(t, "rn")})
				case 4:
					s.Ops = append(s.Ops, Op{K: "T", N: rapid.IntRange(1, 30).Draw(t, "tn")})
				case 5, 6, 7:
					k := rapid.IntRange(1, min(h, 6)).Draw(t, "fk")
					pk := rapid.SliceOfN(rapid.IntRange(0, 3*h), k, k).Draw(t, "picks")
					s.Ops = append(s.Ops, Op{K: "F", Picks: pk})
					rel += k
				default:
					k := rapid.IntRange(1, h).Draw(t, "fmk")
					pk := rapid.SliceOfN(rapid.IntRange(0, 3*h), k, k).Draw(t, "picks")
					s.Ops = append(s.Ops, Op{K: "FM", Picks: pk})
					rel += k
				}
				if rapid.IntRange(0, 2).Draw(t, "autod") == 0 {
					s.Ops = append(s.Ops, Op{K: "D"})
				}
			}
			s.Ops = append(s.Ops, Op{K: "D"})
			if s.Ver == 1 && rapid.IntRange(0, 3).Draw(t, "readd") == 0 {
				// v1: AddInput for a priority that is already configured replaces its channel by another
				// full one: the set of priorities, the shares and the saturation stay as they were
				for k, n := 0, rapid.IntRange(1, 2).Draw(t, "nreadd"); k < n; k++ {
					m := h + rel + 1 + rapid.IntRange(0, 2).Draw(t, "readdmargin")
					at := rapid.IntRange(0, len(s.Ops)-1).Draw(t, "readdat")
					op := Op{K: "A", P: rapid.SampledFrom(ps).Draw(t, "readdp"), N: m, M: m}
					s.Ops = append(s.Ops[:at], append([]Op{op, {K: "D"}}, s.Ops[at:]...)...)
				}
			}
			// v1: input buffers smaller than the shares, kept full by blocked producers
			small := s.Ver == 1 && rapid.IntRange(0, 2).Draw(t, "smallbuf") == 0
			if small {
				s.Strict, s.OutCap = true, 0
			}
			for _, p := range ps {
				n := h + rel + 1 + rapid.IntRange(0, 3).Draw(t, "margin")
				cp := n
				if small {
					cp = min(n, pick(t, "smallcap", 1, 2, 3, 4, 6, 10))
				}
				s.Ins = append(s.Ins, In{P: p, Cap: cp, Prefill: n})
			}
			return s
		}

		startEmpty := o.AddRemove && s.Ver == 1 && !s.Simple && rapid.IntRange(0, 7).Draw(t, "startempty") == 0
		for _, p := range ps {
			if startEmpty {
				break // v1 may be created without inputs; they are added later
			}
			cp := pick(t, "cap", 0, 0, 1, 2, 8, 64)
			pre := 0
			if !o.Sparse || rapid.Bool().Draw(t, "pre?") {
				pre = pick(t, "prefill", 0, 0, 1, 2, h, h+3, 2*h+1)
			}
			s.Ins = append(s.Ins, In{P: p, Cap: cp, Prefill: pre})
		}
		anyP := func(label string) uint { return rapid.SampledFrom(all).Draw(t, label) }
		curP := func(label string) uint { return rapid.SampledFrom(ps).Draw(t, label) }
		picks := func() []int {
			k := rapid.IntRange(1, min(h, 8)).Draw(t, "npick")
			return rapid.SliceOfN(rapid.IntRange(0, 3*h+3), k, k).Draw(t, "picks")
		}
		stopAt := -1
		if o.StopOps && s.Ver == 1 && s.Simple {
			s.HandleLag = pick(t, "handlelag", int64(0), 0, 7, 40)
		}
		if o.StopOps && s.Ver == 1 && rapid.IntRange(0, 15).Draw(t, "precancel") == 1 {
			s.PreCancel = true
			s.Epilogue = "none"
		}
		if o.StopOps && s.Ver == 1 && (!o.StopHalf || rapid.Bool().Draw(t, "stopped")) {
			stopAt = rapid.IntRange(0, nops).Draw(t, "stopat")
			s.Epilogue = "none"
		}
		mode := pick(t, "mode", "mixed", "mixed", "withhold", "eager", "single")
		if o.Sparse {
			mode = pick(t, "smode", "single", "single", "alternate", "mixed", "withhold")
		}
		single := curP("singleP")
		if s.Ver == 1 && !s.Simple && rapid.Bool().Draw(t, "zerosingle") {
			// v1 accepts an H that leaves a priority without a share (or without an entry at all): make
			// that one the busy priority, with more data than there are handlers
			m := map[uint]uint{}
			baseDivider(s.Div)(ps, s.H, m)
			for _, p := range ps {
				if m[p] == 0 {
					mode, single = "single", p
				}
			}
		}
		for i := 0; i < nops; i++ {
			if i == stopAt {
				s.Ops = append(s.Ops, Op{K: pick(t, "stopkind", "S", "S", "K"), N: pick(t, "stopcalls", 1, 1, 2)})
				break
			}
			r := rapid.IntRange(0, 99).Draw(t, "k")
			switch {
			case r < 22:
				p := curP("wp")
				if mode == "single" && rapid.IntRange(0, 4).Draw(t, "sng") != 0 {
					p = single
				}
				if o.AddRemove {
					p = anyP("wp2")
				}
				s.Ops = append(s.Ops, Op{K: "W", P: p, N: pick(t, "wn", 1, 1, 2, 3, h, h+1, 2*h, 3*h+2)})
			case r < 27:
				p := curP("cp")
				if o.AddRemove {
					p = anyP("cp2")
				}
				s.Ops = append(s.Ops, Op{K: "C", P: p})
			case r < 47:
				s.Ops = append(s.Ops, Op{K: "D"})
			case r < 53:
				s.Ops = append(s.Ops, Op{K: "R", N: rapid.IntRange(1, h+1).Draw(t, "rn")})
			case r < 70:
				if mode == "withhold" && rapid.IntRange(0, 3).Draw(t, "wh") != 0 {
					s.Ops = append(s.Ops, Op{K: "T", N: rapid.IntRange(1, 40).Draw(t, "tn")})
				} else {
					s.Ops = append(s.Ops, Op{K: "F", Picks: picks()})
				}
			case r < 80:
				if mode == "withhold" && rapid.IntRange(0, 3).Draw(t, "wh2") != 0 {
					s.Ops = append(s.Ops, Op{K: "D"})
				} else {
					k := rapid.IntRange(1, h+2).Draw(t, "fmk")
					s.Ops = append(s.Ops, Op{K: "FM", Picks: rapid.SliceOfN(rapid.IntRange(0, 3*h+3), k, k).Draw(t, "fmp")})
				}
			case r < 86:
				s.Ops = append(s.Ops, Op{K: "T", N: rapid.IntRange(1, 60).Draw(t, "tn")})
			default:
				switch {
				case o.AddRemove && s.Ver == 1 && !s.Simple && rapid.IntRange(0, 4).Draw(t, "axg") == 0:
					s.Ops = append(s.Ops, Op{K: "G", N: pick(t, "gcalls", 1, 1, 2)}) // GracefulStop early or in the middle, also in add/remove scripts
				case o.AddRemove && s.Ver == 1 && !s.Simple && rapid.IntRange(0, 3).Draw(t, "xa") == 0:
					// the same priority removed and added again at once (whatever of it is in flight stays in flight)
					p := curP("xap")
					s.Ops = append(s.Ops, Op{K: "X", P: p}, Op{K: "A", P: p, N: pick(t, "xacap", 0, 1, 2, 8), M: pick(t, "xapre", 0, 1, 3, h)})
				case o.AddRemove && s.Ver == 1 && !s.Simple:
					if rapid.Bool().Draw(t, "ax") {
						s.Ops = append(s.Ops, Op{K: "A", P: anyP("ap"), N: pick(t, "acap", 0, 1, 2, 8), M: pick(t, "apre", 0, 1, 3, h)})
					} else {
						s.Ops = append(s.Ops, Op{K: "X", P: anyP("xp")})
					}
				case s.Ver == 1 && rapid.IntRange(0, 2).Draw(t, "g") == 0:
					s.Ops = append(s.Ops, Op{K: "G", N: pick(t, "gcalls2", 1, 1, 2)})
				default:
					s.Ops = append(s.Ops, Op{K: "D"})
				}
			}
			if mode == "eager" {
				s.Ops = append(s.Ops, Op{K: "D"}, Op{K: "FM", Picks: []int{0, 1, 2, 3, 4, 5, 6, 7}[:min(8, h)]})
			}
		}
		if stopAt >= nops && stopAt >= 0 {
			s.Ops = append(s.Ops, Op{K: pick(t, "stopkind2", "S", "S", "K"), N: pick(t, "stopcalls2", 1, 1, 2)})
		}
		if o.Fault {
			s.Fault = &Fault{
				Call:  rapid.IntRange(1, 40).Draw(t, "fcall"),
				Over:  rapid.Bool().Draw(t, "fover"),
				Delta: uint(rapid.IntRange(1, 3).Draw(t, "fdelta")),
			}
			s.Fault.Outside = rapid.IntRange(0, 3).Draw(t, "foutside") == 0
			s.Fault.AfterGStop = s.Ver == 1 && rapid.IntRange(0, 4).Draw(t, "fgstop") == 0
			if rapid.IntRange(0, 7).Draw(t, "fnone") == 0 {
				s.Fault = nil
			}
		}
		return s
	})
}

// genMany : 33..38 or 65..70 inputs with the priorities n..1, Fair, H = n..n+3 (every priority has one
// handler, a few have two), a short script of writes, closes, receives and releases.
func genMany(t *rapid.T, s Script) Script {
	s.Div = "fair"
	// just above a machine-word boundary (a bookkeeping mask, a fixed-size table)
	bound := pick(t, "manybound", 64, 64, 64, 32)
	n := bound + rapid.IntRange(1, 6).Draw(t, "manyn")
	s.H = uint(n + rapid.IntRange(0, 3).Draw(t, "manyh"))
	if s.Ver == 1 && !s.Simple {
		s.OutCap = pick(t, "outcap", 0, 1, 16, 100)
		s.FbCap = pick(t, "fbcap", 0, 1, 16, 100)
	}
	lowHeavy := rapid.IntRange(0, 3).Draw(t, "lowheavy") != 0
	for p := n; p >= 1; p-- {
		pre := pick(t, "prefill", 0, 0, 1, 2, 3)
		cp := pick(t, "cap", 0, 1, 2, 8)
		if lowHeavy && p <= n-bound {
			// the lowest priorities still have data, most of it still in the hands of their producers,
			// when all the others are done
			pre = pick(t, "prefilllow", 3, 5, 8, 12, int(s.H)+5, 2*int(s.H))
			cp = pick(t, "caplow", 0, 1, 2, 8)
		} else if lowHeavy {
			pre = pick(t, "prefillhigh", 0, 0, 0, 1)
		}
		s.Ins = append(s.Ins, In{P: uint(p), Cap: cp, Prefill: pre})
	}
	h := int(s.H)
	if rapid.Bool().Draw(t, "closehigh") {
		// all inputs but the lowest few are closed early; the low ones stay open, idle at times,
		// and get their data later
		keep := rapid.IntRange(1, n-bound+rapid.IntRange(0, 1).Draw(t, "keepmore")).Draw(t, "keeplow")
		for p := 1; p <= keep; p++ {
			// room for what is written later, so that their producers get to close them in the end
			s.Ins[n-p].Cap, s.Ins[n-p].Prefill = 8, pick(t, "keepprefill", 0, 0, 1)
		}
		s.Ops = append(s.Ops, Op{K: "C", P: uint(keep + 1), M: 1}, Op{K: "D"}, Op{K: "FM", Picks: rapid.SliceOfN(rapid.IntRange(0, 3*h), h, h).Draw(t, "relall")}, Op{K: "D"},
			Op{K: "T", N: rapid.IntRange(1, 2000).Draw(t, "idle")}, Op{K: "D"},
			Op{K: "W", P: uint(rapid.IntRange(1, keep).Draw(t, "latep")), N: pick(t, "laten", 1, 3, 7)}, Op{K: "D"})
	}
	for i, nops := 0, rapid.IntRange(1, 12).Draw(t, "nops"); i < nops; i++ {
		switch rapid.IntRange(0, 9).Draw(t, "k") {
		case 0, 1:
			s.Ops = append(s.Ops, Op{K: "W", P: uint(rapid.IntRange(1, n).Draw(t, "wp")), N: pick(t, "wn", 1, 2, 5)})
		case 2:
			s.Ops = append(s.Ops, Op{K: "C", P: uint(rapid.IntRange(1, n).Draw(t, "cp"))})
		case 3, 4, 5:
			s.Ops = append(s.Ops, Op{K: "D"})
		case 6:
			s.Ops = append(s.Ops, Op{K: "R", N: rapid.IntRange(1, h).Draw(t, "rn")})
		case 7:
			k := rapid.IntRange(1, 8).Draw(t, "npick")
			s.Ops = append(s.Ops, Op{K: "F", Picks: rapid.SliceOfN(rapid.IntRange(0, 3*h), k, k).Draw(t, "picks")})
		case 8:
			k := rapid.IntRange(1, h).Draw(t, "fmk")
			s.Ops = append(s.Ops, Op{K: "FM", Picks: rapid.SliceOfN(rapid.IntRange(0, 3*h), k, k).Draw(t, "fmp")})
		default:
			s.Ops = append(s.Ops, Op{K: "T", N: rapid.IntRange(1, 60).Draw(t, "tn")})
		}
	}
	return s
}

// Classes labels a script and its trace.
func Classes(s Script, tr Trace) []string {
	cl := []string{map[int]string{1: "v1", 2: "v2"}[s.Ver] + map[bool]string{true: "-simple", false: "-plain"}[s.Simple], "div:" + s.Div}
	unb, buf := false, false
	for _, in := range s.Ins {
		if in.Cap == 0 {
			unb = true
		} else {
			buf = true
		}
	}
	if unb {
		cl = append(cl, "unbuffered-input")
	}
	if unb && buf {
		cl = append(cl, "mixed-inputs")
	}
	if uint(tr.MaxInFlight) == s.H {
		cl = append(cl, "reached-H")
	}
	if tr.Terminated {
		cl = append(cl, "terminated")
	}
	if tr.NewErr != "" {
		cl = append(cl, "rejected-by-constructor")
	}
	if tr.FaultCall > 0 {
		cl = append(cl, "fault-injected")
	}
	if tr.Stopped() {
		cl = append(cl, "stopped:"+tr.StopMode)
	}
	if len(tr.Inputs) > 0 {
		cl = append(cl, "add/remove")
	}
	if tr.Deadlock != "" {
		cl = append(cl, "wedged")
	}
	if len(s.Ins) > 32 {
		cl = append(cl, "more-than-32-inputs")
	}
	if len(s.Ins) > 64 {
		cl = append(cl, "more-than-64-inputs")
	}
	return cl
}
