package prio

import (
	"encoding/json"
	"fmt"
	"os"
	"testing"
)

// TestDebug executes the script in $DEBUG_SCRIPT and prints the trace (development aid).
func TestDebug(t *testing.T) {
	f := os.Getenv("DEBUG_SCRIPT")
	if f == "" {
		t.Skip()
	}
	b, _ := os.ReadFile(f)
	var doc struct {
		Script Script `json:"script"`
	}
	if err := json.Unmarshal(b, &doc); err != nil || doc.Script.Ver == 0 {
		_ = json.Unmarshal(b, &doc.Script)
	}
	for i := 0; i < 3; i++ {
		tr := Execute(t, doc.Script, false)
		tr.Deliveries = nil
		out, _ := json.MarshalIndent(tr, "", " ")
		fmt.Println(string(out))
	}
}
