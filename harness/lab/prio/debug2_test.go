package prio

import (
	"encoding/json"
	"fmt"
	"os"
	"testing"
)

// TestDebugLoop re-executes $DEBUG_SCRIPT until CheckC05 fails and prints that trace (development aid).
func TestDebugLoop(t *testing.T) {
	f := os.Getenv("DEBUG_SCRIPT")
	if f == "" {
		t.Skip()
	}
	b, _ := os.ReadFile(f)
	var doc struct {
		Script Script `json:"script"`
	}
	if err := json.Unmarshal(b, &doc); err != nil || doc.Script.Ver == 0 {
		_ = json.Unmarshal(b, &doc.Script)
	}
	for i := 0; i < 400; i++ {
		tr := Execute(t, doc.Script, false)
		if err := CheckC05(doc.Script, tr); err != nil {
			fmt.Println("run", i, err)
			fmt.Println(tr.MaxPerPrioAt)
			for _, sn := range tr.Snaps {
				fmt.Printf("snap op=%d at=%d inflight=%v queued=%d configured=%v\n", sn.Op, sn.At, sn.InFlight, sn.Queued, sn.Configured)
			}
			fmt.Printf("%+v\n", tr.Inputs)
			return
		}
	}
	fmt.Println("no failure in 400 runs")
}
