package prio

import (
	"fmt"
	"sort"
)

func firstLine(s string) string {
	for i := 0; i < len(s); i++ {
		if s[i] == '\n' {
			return s[:i]
		}
	}
	return s
}

func sumMap(m map[uint]int) int {
	t := 0
	for _, v := range m {
		t += v
	}
	return t
}

// Stopped tells whether the script ended through Stop()/cancel.
func (tr Trace) Stopped() bool { return tr.StopIssuedAt >= 0 }

// CheckC01 : never more than HandlersQuantity items in processing.
func CheckC01(s Script, tr Trace) error {
	if tr.OverCommit != "" {
		return fmt.Errorf("%s", tr.OverCommit)
	}
	return nil
}

// CheckC02 : exactly once, right tag, FIFO per priority, nothing invented, nothing lost.
func CheckC02(s Script, tr Trace) error {
	if tr.NewErr != "" {
		return nil
	}
	type key struct {
		p uint
		g int
	}
	enq := map[key]int{}
	for _, st := range tr.InStat {
		enq[key{st.P, st.Gen}] = st.Enq
	}
	next := map[key]int{}
	seen := map[Item]bool{}
	for i, d := range tr.Deliveries {
		k := key{d.It.P, d.It.G}
		n, known := enq[k]
		if !known || d.It.S < 0 || d.It.S >= n {
			return fmt.Errorf("delivery #%d is item %+v which was never written", i, d.It)
		}
		if seen[d.It] {
			return fmt.Errorf("delivery #%d: item %+v delivered twice", i, d.It)
		}
		seen[d.It] = true
		if d.HasTag && d.Tag != d.It.P {
			return fmt.Errorf("delivery #%d: item %+v of the channel registered with priority %d carries priority %d", i, d.It, d.It.P, d.Tag)
		}
		if !s.Simple {
			if d.It.S != next[k] {
				return fmt.Errorf("delivery #%d: item %+v left out of order, expected sequence number %d of that channel next", i, d.It, next[k])
			}
			next[k] = d.It.S + 1
		}
	}
	// no loss at normal termination
	if tr.Terminated && !tr.Stopped() && s.Fault == nil && tr.Deadlock == "" {
		for _, st := range tr.InStat {
			if st.Removed || st.Replaced || !st.Closed || st.Unregistered {
				continue
			}
			if st.Delivered != st.Enq {
				return fmt.Errorf("discipline terminated normally but input of priority %d delivered %d of %d written items", st.P, st.Delivered, st.Enq)
			}
		}
	}
	return nil
}

// Saturated tells whether the script keeps every input non-empty from creation to the epilogue.
func Saturated(s Script) bool {
	if s.Simple || s.Fault != nil {
		return false
	}
	rel := 0
	var adds []Op
	for _, op := range s.Ops {
		switch op.K {
		case "R", "T", "D":
		case "FP":
			rel++
		case "F", "FM":
			rel += len(op.Picks)
		case "A":
			adds = append(adds, op) // v1: the channel of a configured priority replaced by another full one
		default:
			return false
		}
	}
	for _, op := range adds {
		known := false
		for _, in := range s.Ins {
			if in.P == op.P {
				known = true
			}
		}
		if s.Ver != 1 || !known || op.N < op.M || op.M < int(s.H)+rel+1 {
			return false
		}
	}
	// a buffer smaller than the supply stays non-empty only when a producer blocked on it refills it
	// before the discipline reads again: v1 with an unbuffered output and a consumer that waits for
	// quiescence after every receive reads one item per quiescent interval
	small := s.Strict && s.Ver == 1 && s.OutCap == 0
	for _, in := range s.Ins {
		if in.Prefill < int(s.H)+rel+1 {
			return false
		}
		if in.Cap < in.Prefill && !(small && in.Cap >= 1) {
			return false
		}
	}
	return true
}

// CheckC05 : under saturation every priority holds exactly its share.
func CheckC05(s Script, tr Trace) error {
	if tr.NewErr != "" || !Saturated(s) {
		return nil
	}
	share := Share(s)
	for p, mx := range tr.MaxPerPrio {
		if uint(mx) > share[p] {
			return fmt.Errorf("priority %d had %d items in flight at once, its share of %d handlers is %d (shares %v)", p, mx, s.H, share[p], share)
		}
	}
	for _, sn := range tr.Snaps {
		if sn.Epilogue || sn.Queued != 0 || sn.Terminated {
			continue
		}
		if uint(sn.Total) != s.H {
			return fmt.Errorf("quiescent after op #%d with no release outstanding: %d of %d handlers occupied although every input has data (in flight %v, shares %v)", sn.Op, sn.Total, s.H, sn.InFlight, share)
		}
		for p, sh := range share {
			if uint(sn.InFlight[p]) != sh {
				return fmt.Errorf("quiescent after op #%d: priority %d holds %d handlers, its share is %d (in flight %v, shares %v)", sn.Op, p, sn.InFlight[p], sh, sn.InFlight, share)
			}
		}
	}
	return nil
}

// ZeroShare reports whether at some moment of the script a configured priority has a zero
// strategic share (the class of known finding F4 for v1).
func ZeroShare(s Script) bool {
	cur := map[uint]bool{}
	for _, in := range s.Ins {
		cur[in.P] = true
	}
	check := func() bool {
		if len(cur) == 0 {
			return false
		}
		var ps []uint
		for p := range cur {
			ps = append(ps, p)
		}
		sort.Slice(ps, func(i, j int) bool { return ps[i] > ps[j] })
		m := map[uint]uint{}
		baseDivider(s.Div)(ps, s.H, m)
		for _, p := range ps {
			if m[p] == 0 {
				return true
			}
		}
		return false
	}
	if check() {
		return true
	}
	for _, op := range s.Ops {
		switch op.K {
		case "A":
			cur[op.P] = true
		case "X":
			delete(cur, op.P)
		default:
			continue
		}
		if check() {
			return true
		}
	}
	return false
}

// waitState tells whether, in the quiescent state sn, the discipline's first phase cannot
// allot the vacant handlers: some priority holds more than its strategic share and the
// division of the vacant handlers among the priorities below their share leaves one of
// them without a handler, so the round waits for a further release (known finding F5).
func waitState(s Script, sn Snap) bool {
	share := shareAt(s, sn)
	ps := append([]uint(nil), sn.Configured...)
	sort.Slice(ps, func(i, j int) bool { return ps[i] > ps[j] })
	over := false
	var unc []uint
	for _, q := range ps {
		a := uint(sn.InFlight[q])
		if a > share[q] {
			over = true
		}
		if a < share[q] {
			unc = append(unc, q)
		}
	}
	if !over || uint(sn.Total) >= s.H {
		return false
	}
	m := map[uint]uint{}
	baseDivider(s.Div)(unc, s.H-uint(sn.Total), m)
	for _, q := range unc {
		if m[q] == 0 {
			return true
		}
	}
	return false
}

// shareAt : the strategic distribution for the priorities configured at the snapshot.
func shareAt(s Script, sn Snap) map[uint]uint {
	ps := append([]uint(nil), sn.Configured...)
	sort.Slice(ps, func(i, j int) bool { return ps[i] > ps[j] })
	m := map[uint]uint{}
	baseDivider(s.Div)(ps, s.H, m)
	return m
}

// CheckC06 : progress. The second result names the known finding the failure belongs to ("" = none).
func CheckC06(s Script, tr Trace) (error, string) {
	if tr.NewErr != "" || tr.Stopped() || s.Fault != nil {
		return nil, ""
	}
	zero := ""
	if s.Ver == 1 && ZeroShare(s) {
		zero = "F4"
	}
	for _, sn := range tr.Snaps {
		if sn.Terminated || sn.Queued != 0 {
			continue
		}
		pend := sumMap(sn.Pending)
		if sn.Total == 0 && pend > 0 {
			return fmt.Errorf("quiescent after op #%d at %dns: nothing in flight, %v items waiting on the inputs, and nothing is delivered (no release can ever come)", sn.Op, sn.At, sn.Pending), zero
		}
		// a priority alone in having data (and alone in flight) gets all handlers
		if pend > 0 && sn.Total > 0 {
			var only uint
			cnt := 0
			for p, n := range sn.Pending {
				if n > 0 {
					cnt++
					only = p
				}
			}
			alone := cnt == 1 && sn.InFlight[only] == sn.Total
			if alone && uint(sn.Total) < s.H {
				known := zero
				if known == "" && waitState(s, sn) {
					known = "F5"
				}
				return fmt.Errorf("quiescent after op #%d: priority %d alone has data (%d items waiting) and alone is in flight, but holds only %d of %d handlers (shares %v)", sn.Op, only, sn.Pending[only], sn.Total, s.H, shareAt(s, sn)), known
			}
		}
	}
	// One-at-a-time releases (the epilogue): a priority that has data waiting and holds fewer
	// handlers than its share is served by every round that proceeds (the add-up step gives it
	// share - actual, the base step divides among the priorities below their share and proceeds only
	// when each of them got something); a round that does not proceed waits for one more release with
	// one more vacant handler, and with H vacant handlers the add-up step applies. So H single
	// releases cannot all pass it by.
	{
		streak := map[uint]int{}
		var prev *Snap
		for i := range tr.Snaps {
			sn := &tr.Snaps[i]
			if !sn.Epilogue || sn.Terminated || sn.Queued != 0 || s.Fault != nil {
				prev = nil
				streak = map[uint]int{}
				continue
			}
			if prev != nil {
				delivered := sumMap(prev.Pending) - sumMap(sn.Pending)
				released := prev.Total + delivered - sn.Total
				share := shareAt(s, *sn)
				before := shareAt(s, *prev)
				for p, sh := range share {
					waiting := sn.Pending[p] > 0 && sn.Pending[p] == prev.Pending[p] && uint(sn.InFlight[p]) < sh && uint(prev.InFlight[p]) < before[p]
					switch {
					case !waiting:
						streak[p] = 0
					case released >= 1:
						streak[p] += released
					}
					if uint(streak[p]) > s.H {
						return fmt.Errorf("epilogue, after op #%d: priority %d has %d items waiting and holds %d of its %d handlers, yet the last %d single releases all went to other priorities (in flight %v, shares %v)", sn.Op, p, sn.Pending[p], sn.InFlight[p], sh, streak[p], sn.InFlight, share), zero
					}
				}
			}
			prev = sn
		}
	}
	if tr.EpilogueStuck != "" {
		pend := 0
		if n := len(tr.Snaps); n > 0 {
			pend = sumMap(tr.Snaps[n-1].Pending)
		}
		if pend > 0 {
			return fmt.Errorf("every delivered item was released one at a time, yet: %s", tr.EpilogueStuck), zero
		}
	}
	if tr.Deadlock != "" {
		return fmt.Errorf("run wedged: %s", firstLine(tr.Deadlock)), zero
	}
	// "every item written to any input is eventually delivered": at normal termination nothing
	// written to a registered, closed input may be left behind
	if tr.Terminated {
		for _, st := range tr.InStat {
			if st.Removed || st.Replaced || st.Unregistered || !st.Closed {
				continue
			}
			if st.Delivered != st.Enq {
				return fmt.Errorf("the discipline terminated although %d of the %d items written to the input of priority %d (channel generation %d) were never delivered", st.Enq-st.Delivered, st.Enq, st.P, st.Gen), zero
			}
		}
	}
	return nil, ""
}

// CheckC07 : termination exactly when drained and released.
func CheckC07(s Script, tr Trace) error {
	if tr.NewErr != "" || tr.Stopped() || s.Fault != nil {
		return nil
	}
	if tr.ReleasePanics > 0 {
		return fmt.Errorf("%d Release() call(s) for delivered, unreleased items panicked: the discipline had already closed its channels", tr.ReleasePanics)
	}
	if tr.Terminated {
		if tr.TermInFlight != 0 {
			return fmt.Errorf("termination (%s) observed at %dns during op #%d while %d delivered item(s) were not released", tr.TermHow, tr.TerminatedAt, tr.TermOp, tr.TermInFlight)
		}
		if !tr.TermAllClosed {
			return fmt.Errorf("termination (%s) observed at %dns during op #%d while an input channel was still open", tr.TermHow, tr.TerminatedAt, tr.TermOp)
		}
		if tr.TermPending != 0 {
			return fmt.Errorf("termination (%s) observed at %dns during op #%d while %d written item(s) were undelivered", tr.TermHow, tr.TerminatedAt, tr.TermOp, tr.TermPending)
		}
		if s.Ver == 1 && !tr.TermGStopAsked {
			return fmt.Errorf("v1 discipline terminated (%s) at %dns without GracefulStop, Stop or cancellation", tr.TermHow, tr.TerminatedAt)
		}
	}
	if tr.ErrVal != "" && tr.ErrVal != "nil-closed" && tr.ErrVal != "nil-value" {
		return fmt.Errorf("Err() yielded %q in normal mode", tr.ErrVal)
	}
	for _, sn := range tr.Snaps {
		if sn.Terminated || sn.Queued != 0 || sn.Total != 0 || !sn.AllClosed || sumMap(sn.Pending) != 0 {
			continue
		}
		if s.Ver == 1 && !sn.GStopAsked {
			continue
		}
		return fmt.Errorf("quiescent after op #%d at %dns: every input closed and drained, nothing in flight%s, but the discipline has not terminated", sn.Op, sn.At, map[bool]string{true: ", GracefulStop called", false: ""}[s.Ver == 1])
	}
	if tr.Deadlock != "" {
		return fmt.Errorf("run wedged: %s", firstLine(tr.Deadlock))
	}
	if s.Epilogue != "none" && !tr.Terminated {
		return fmt.Errorf("no termination after every input was closed and every item released: %s", tr.EpilogueStuck)
	}
	return nil
}

// ExpectNewErr returns the error v2 New must return for the configuration ("" = none).
func ExpectNewErr(s Script) string {
	share := Share(s)
	for _, in := range s.Ins {
		if share[in.P] == 0 {
			return "handlers quantity is too small"
		}
	}
	return ""
}

// CheckC15 : divider contract and fail-safe.
func CheckC15(s Script, tr Trace) error {
	if tr.Spin {
		if !tr.SpinAfterFault {
			return nil
		}
		return fmt.Errorf("after the divider fault the run never finished: %s", firstLine(tr.Deadlock))
	}
	if len(tr.DivViolations) > 0 {
		v := tr.DivViolations[0]
		return fmt.Errorf("divider call #%d with priorities %v, dividend %d, nil map %v: %s", v.Call, v.Prios, v.Dividend, v.NilMap, v.What)
	}
	if s.Ver == 2 && len(s.Ins) > 0 && s.H > 0 {
		if tr.FaultAtCreate {
			if tr.NewErr != "divider produces an incorrect distribution" {
				return fmt.Errorf("divider fault in the creation call: New returned %q, expected ErrDividerBad", tr.NewErr)
			}
			return nil
		}
		if want := ExpectNewErr(s); want != tr.NewErr {
			return fmt.Errorf("New returned %q for shares %v, expected %q", tr.NewErr, Share(s), want)
		}
	}
	if tr.NewErr != "" || tr.FaultCall == 0 {
		return nil
	}
	if tr.OverCommit != "" {
		return fmt.Errorf("with a faulty divider: %s", tr.OverCommit)
	}
	if !s.Simple && !tr.FaultEarly {
		after := len(tr.Deliveries) - tr.FaultDelivs
		if after > tr.FaultOutLen {
			return fmt.Errorf("divider call #%d returned a wrong total; %d item(s) were delivered afterwards although only %d sat in the output channel at that moment", tr.FaultCall, after, tr.FaultOutLen)
		}
	}
	if tr.ErrVal != "ErrDividerBad" {
		return fmt.Errorf("divider call #%d returned a wrong total; Err() yielded %q, expected ErrDividerBad", tr.FaultCall, tr.ErrVal)
	}
	if tr.Deadlock != "" {
		return fmt.Errorf("after the divider fault the run wedged: %s", firstLine(tr.Deadlock))
	}
	if !tr.Terminated {
		return fmt.Errorf("after the divider fault and the release of every in-flight item the discipline did not terminate (%s)", tr.EpilogueStuck)
	}
	if tr.FaultBeforeClose && !tr.FaultTermOpenInputs {
		return fmt.Errorf("after the divider fault and the release of every in-flight item the discipline terminated only once its inputs had been closed as well")
	}
	return nil
}

// CheckC16 (priority part).
func CheckC16(s Script, tr Trace) error {
	if tr.Spin {
		if tr.SpinAfterStop {
			return fmt.Errorf("Stop()/cancel never completed: %s", firstLine(tr.Deadlock))
		}
		return nil
	}
	if tr.NewErr != "" || !tr.Stopped() {
		return nil
	}
	if tr.StopMode == "cancel" && !tr.CancelTookEffect {
		return fmt.Errorf("the context was cancelled at %dns during op #%d with %d item(s) in flight; Err() was not closed within 50 settle rounds of virtual time (before Stop() was called)", tr.StopIssuedAt, tr.StopIssuedOp, tr.StopInFlight)
	}
	if !tr.StopReturned {
		return fmt.Errorf("%s issued at %dns during op #%d with %d item(s) in flight did not complete within 50 settle rounds of virtual time and without any release (%s)", tr.StopMode, tr.StopIssuedAt, tr.StopIssuedOp, tr.StopInFlight, firstLine(tr.Deadlock))
	}
	if tr.AfterStopNew > 0 {
		return fmt.Errorf("after Stop() returned (%d item(s) sat in the output channel) %d item(s) were received: %d written to the output after Stop returned", tr.StopOutLen, tr.AfterStopRecv, tr.AfterStopNew)
	}
	if s.Simple && tr.HandleRunningAfterStop > 0 {
		return fmt.Errorf("%d Handle call(s) still running after Stop() returned", tr.HandleRunningAfterStop)
	}
	type key struct {
		p uint
		g int
	}
	last := map[key]int{}
	enq := map[key]int{}
	for _, st := range tr.InStat {
		enq[key{st.P, st.Gen}] = st.Enq
	}
	seen := map[Item]bool{}
	for i, d := range tr.Deliveries {
		k := key{d.It.P, d.It.G}
		if seen[d.It] || d.It.S >= enq[k] {
			return fmt.Errorf("delivery #%d item %+v duplicated or never written", i, d.It)
		}
		seen[d.It] = true
		if !s.Simple {
			if l, ok := last[k]; ok && d.It.S <= l {
				return fmt.Errorf("delivery #%d item %+v out of order", i, d.It)
			}
			last[k] = d.It.S
		}
	}
	if tr.Deadlock != "" {
		return fmt.Errorf("run wedged after the stop: %s", firstLine(tr.Deadlock))
	}
	return nil
}

// CheckC17 : AddInput / RemoveInput.
func CheckC17(s Script, tr Trace) error {
	if tr.NewErr != "" {
		return nil
	}
	for _, ev := range tr.Inputs {
		if !ev.Returned {
			if !tr.Stopped() && tr.Terminated && ev.Kind == "remove" {
				// the call was still blocked when the discipline terminated: allowed (it returns then)
			}
			continue
		}
		if ev.Kind == "remove" && ev.ReadsFinal > ev.ReadsAtRet {
			return fmt.Errorf("RemoveInput(%d) returned at %dns when at most %d items had been read from the channel; at the end of the run %d had been read", ev.P, ev.ReturnedAt, ev.ReadsAtRet, ev.ReadsFinal)
		}
		if ev.Kind == "add" && ev.OldGen != 0 && ev.OldReadsFinal > ev.OldReadsAtRet {
			return fmt.Errorf("AddInput(new channel, %d) returned at %dns when at most %d items had been read from the replaced channel; at the end %d had been read", ev.P, ev.ReturnedAt, ev.OldReadsAtRet, ev.OldReadsFinal)
		}
	}
	if err := CheckC02(s, tr); err != nil {
		return err
	}
	if tr.OverCommit != "" {
		return fmt.Errorf("%s", tr.OverCommit)
	}
	if tr.Stopped() {
		return nil
	}
	if tr.Deadlock != "" {
		return fmt.Errorf("run wedged: %s", firstLine(tr.Deadlock))
	}
	if !tr.Terminated {
		return fmt.Errorf("GracefulStop did not complete after every remaining input was closed and every item released: %s", tr.EpilogueStuck)
	}
	// graceful termination keeps its meaning across additions and removals (items of removed
	// priorities stay accounted for until fed back)
	if s.Fault == nil {
		if err := CheckC07(s, tr); err != nil {
			return err
		}
	}
	// everything read was delivered
	for _, st := range tr.InStat {
		if st.Delivered != st.Reads {
			return fmt.Errorf("input of priority %d (generation %d): %d items were read by the discipline, %d delivered", st.P, st.Gen, st.Reads, st.Delivered)
		}
	}
	return nil
}

// CheckC19 : no goroutine of the discipline survives termination.
func CheckC19(s Script, tr Trace) error {
	if tr.NewErr != "" {
		return nil
	}
	if len(tr.Leaked) > 0 {
		return fmt.Errorf("goroutines started by the discipline remain after termination: %v", tr.Leaked)
	}
	return nil
}
