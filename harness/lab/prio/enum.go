package prio

import (
	"os"
	"strconv"
)

// Bounded exhaustive generators: the deterministic part of the checks. In the thorough
// tier the enumeration is partitioned over the shards (VERIF_SHARD of VERIF_SHARDS).

func shard() (int, int) {
	n, _ := strconv.Atoi(os.Getenv("VERIF_SHARDS"))
	i, _ := strconv.Atoi(os.Getenv("VERIF_SHARD"))
	if n <= 0 {
		return 0, 1
	}
	return i, n
}

// sequences calls f with every sequence over the alphabet of exactly the given length.
func sequences(alphabet []Op, length int, f func([]Op) bool) bool {
	idx := make([]int, length)
	for {
		seq := make([]Op, length)
		for i, k := range idx {
			seq[i] = alphabet[k]
		}
		if !f(seq) {
			return false
		}
		i := length - 1
		for ; i >= 0; i-- {
			idx[i]++
			if idx[i] < len(alphabet) {
				break
			}
			idx[i] = 0
		}
		if i < 0 {
			return true
		}
	}
}

// exhaustiveC01 : every op sequence of a fixed depth over {drain, write H items to p,
// release the oldest in-flight item of p} for priorities {3,2,1}.
func exhaustiveC01(thorough bool, each func(s Script, label string) bool) {
	type cfg struct {
		ver int
		div string
		h   uint
	}
	cfgs := []cfg{{2, "fair", 3}, {2, "rate", 6}, {1, "rate", 6}}
	depth := 3
	if thorough {
		depth = 5
		cfgs = nil
		for _, v := range []int{1, 2} {
			for _, d := range []string{"fair", "rate"} {
				for _, h := range []uint{3, 4, 6} {
					if d == "rate" && h < 6 {
						continue // Rate gives priority 1 of {3,2,1} nothing below 6
					}
					cfgs = append(cfgs, cfg{v, d, h})
				}
			}
		}
	}
	alphabet := []Op{{K: "D"}}
	for _, p := range []uint{3, 2, 1} {
		alphabet = append(alphabet, Op{K: "W", P: p, N: 2}, Op{K: "FP", P: p})
	}
	me, n := shard()
	count := 0
	// v1 accepts an H that leaves priorities without a share - Rate even without an entry in the
	// map when its remainder runs out early. One priority at a time is the only busy one, with more
	// data than there are handlers, and releases follow.
	for _, z := range []struct {
		div string
		ps  []uint
		h   uint
	}{{"rate", []uint{7, 5, 3, 1}, 8}, {"rate", []uint{3, 2, 1}, 2}, {"rate", []uint{5, 3, 1}, 4}, {"fair", []uint{3, 2, 1}, 2}, {"rate", []uint{7, 5, 3, 1}, 16}} {
		for _, busy := range z.ps {
			count++
			if count%n != me {
				continue
			}
			sc := Script{Ver: 1, Div: z.div, H: z.h, Epilogue: "normal"}
			for _, p := range z.ps {
				in := In{P: p, Cap: 8}
				if p == busy {
					in.Prefill = 3 * int(z.h)
				}
				sc.Ins = append(sc.Ins, in)
			}
			sc.Ops = []Op{{K: "D"}, {K: "FP", P: busy}, {K: "D"}, {K: "FM", Picks: []int{0, 1}}, {K: "D"}, {K: "W", P: z.ps[0], N: 2}, {K: "D"}}
			if !each(sc, "exhaustive-zero-share") {
				return
			}
		}
	}
	for _, c := range cfgs {
		ok := sequences(alphabet, depth, func(seq []Op) bool {
			count++
			if count%n != me {
				return true
			}
			s := Script{Ver: c.ver, Div: c.div, H: c.h, OutCap: 1, FbCap: 1, Epilogue: "normal",
				Ins: []In{{P: 3, Cap: 2, Prefill: 2}, {P: 2, Cap: 0, Prefill: 1}, {P: 1, Cap: 2, Prefill: 0}},
				Ops: append([]Op{{K: "D"}}, seq...)}
			return each(s, "exhaustive")
		})
		if !ok {
			return
		}
	}
}

// exhaustiveC05 : every release order of a fixed depth under saturation.
func exhaustiveC05(thorough bool, each func(s Script, label string) bool) {
	type cfg struct {
		ver int
		div string
		h   uint
	}
	cfgs := []cfg{{2, "rate", 6}, {1, "fair", 4}}
	depth := 3
	if thorough {
		depth = 5
		cfgs = nil
		for _, v := range []int{1, 2} {
			for _, d := range []string{"fair", "rate", "square"} {
				for _, h := range []uint{3, 5, 6, 7} {
					cfgs = append(cfgs, cfg{v, d, h})
				}
			}
		}
	}
	alphabet := []Op{{K: "D"}, {K: "FM", Picks: []int{0, 0, 0, 0, 0, 0, 0, 0}}, {K: "FM", Picks: []int{0, 1}}}
	for _, p := range []uint{3, 2, 1} {
		alphabet = append(alphabet, Op{K: "FP", P: p})
	}
	me, n := shard()
	count := 0
	for _, c := range cfgs {
		base := Script{Ver: c.ver, Div: c.div, H: c.h, OutCap: 1, FbCap: 1, Epilogue: "normal"}
		for _, p := range []uint{3, 2, 1} {
			base.Ins = append(base.Ins, In{P: p})
		}
		if sh := Share(base); sh[1] == 0 || sh[2] == 0 || sh[3] == 0 {
			continue
		}
		ok := sequences(alphabet, depth, func(seq []Op) bool {
			count++
			if count%n != me {
				return true
			}
			s := base
			s.Ins = nil
			k := int(c.h) + 8*depth + 2
			for _, p := range []uint{3, 2, 1} {
				s.Ins = append(s.Ins, In{P: p, Cap: k, Prefill: k})
			}
			s.Ops = append([]Op{{K: "D"}}, seq...)
			s.Ops = append(s.Ops, Op{K: "D"})
			return each(s, "exhaustive")
		})
		if !ok {
			return
		}
	}
}

func baseScripts(vers []int, simple []bool) []Script {
	var out []Script
	traffic := []Op{
		{K: "D"}, {K: "FP", P: 3}, {K: "D"}, {K: "W", P: 1, N: 3}, {K: "FM", Picks: []int{0, 1, 2}}, {K: "D"},
		{K: "W", P: 2, N: 4}, {K: "T", N: 7}, {K: "R", N: 2}, {K: "F", Picks: []int{1, 0}}, {K: "D"}, {K: "C", P: 3},
		{K: "FM", Picks: []int{0, 1, 2, 3, 4, 5}}, {K: "D"}, {K: "W", P: 1, N: 2}, {K: "D"},
	}
	for _, v := range vers {
		for _, sm := range simple {
			for _, div := range []string{"fair", "rate"} {
				for _, caps := range [][3]int{{4, 4, 4}, {0, 2, 0}} {
					out = append(out, Script{Ver: v, Simple: sm, Div: div, H: 6, OutCap: 1, FbCap: 1, Epilogue: "normal",
						Ins: []In{{P: 3, Cap: caps[0], Prefill: 5}, {P: 2, Cap: caps[1], Prefill: 3}, {P: 1, Cap: caps[2], Prefill: 1}},
						Ops: append([]Op(nil), traffic...)})
				}
			}
		}
	}
	return out
}

// enumerateFaults : for a set of base scripts, a fault at every eligible divider call.
func enumerateFaults(thorough bool, each func(s Script, label string) bool) {
	me, n := shard()
	count := 0
	limit := 10
	if thorough {
		limit = 400
	}
	for _, b := range baseScripts([]int{1, 2}, []bool{false}) {
		for k := 1; k <= limit; k++ {
			for variant := 0; variant < 3; variant++ {
				count++
				if count%n != me {
					continue
				}
				s := b
				s.Fault = &Fault{Call: k, Over: variant == 0, Delta: 1, Outside: variant == 2}
				if !each(s, "fault-enumeration") {
					return
				}
			}
		}
	}
}

// enumerateStops : Stop / cancel at every position of the v1 base scripts.
func enumerateStops(thorough bool, each func(s Script, label string) bool) {
	me, n := shard()
	count := 0
	for _, b := range baseScripts([]int{1}, []bool{false, true}) {
		for pos := 0; pos <= len(b.Ops); pos++ {
			for _, kind := range []string{"S", "K"} {
				count++
				if count%n != me {
					continue
				}
				s := b
				s.Epilogue = "none"
				s.Ops = append(append([]Op(nil), b.Ops[:pos]...), Op{K: kind})
				if !each(s, "stop-enumeration") {
					return
				}
			}
		}
	}
}

// exhaustiveAddRemove : v1 plain, three priorities, a small H (including values that leave
// a priority without a strategic share, which the v1 constructor accepts): every sequence of
// a fixed depth over {write to the highest / the lowest, drain, remove the middle / the
// lowest, add the middle again, release the oldest item of the highest}.
func exhaustiveAddRemove(thorough bool, each func(s Script, label string) bool) {
	depth := 3
	if thorough {
		depth = 5
	}
	me, n := shard()
	count := 0
	for _, div := range []string{"fair", "rate"} {
		for _, ps := range [][3]uint{{5, 4, 1}, {3, 2, 1}} {
			for _, h := range []uint{1, 2, 3, 6} {
				hi, mid, lo := ps[0], ps[1], ps[2]
				alphabet := []Op{
					{K: "W", P: hi, N: 1}, {K: "W", P: lo, N: 2}, {K: "D"},
					{K: "X", P: mid}, {K: "X", P: lo}, {K: "A", P: mid, N: 1, M: 1}, {K: "FP", P: hi},
				}
				ok := sequences(alphabet, depth, func(seq []Op) bool {
					count++
					if count%n != me {
						return true
					}
					s := Script{Ver: 1, Div: div, H: h, OutCap: 1, FbCap: 1, Epilogue: "normal",
						Ins: []In{{P: hi, Cap: 0}, {P: mid, Cap: 0}, {P: lo, Cap: 2}},
						Ops: append(append([]Op(nil), seq...), Op{K: "D"})}
					return each(s, "add/remove-enumeration")
				})
				if !ok {
					return
				}
			}
		}
	}
}
