package prio

// Bounded exhaustive generators (deterministic part of the thorough tier).

func exhaustiveC01(thorough bool, each func(s Script, label string) bool) {}

func exhaustiveC05(thorough bool, each func(s Script, label string) bool) {}

func enumerateFaults(thorough bool, each func(s Script, label string) bool) {}

func enumerateStops(thorough bool, each func(s Script, label string) bool) {}
