package pure

import (
	"fmt"
	"sort"
	"sync"
	"time"

	v1 "github.com/akramarenkov/cqos/priority"
	"github.com/akramarenkov/cqos/v2/limit"
	"github.com/akramarenkov/cqos/v2/priority/utils"
	"pgregory.net/rapid"
)

// Call is one call of a pure function of the library with arguments of its own.
type Call struct {
	Rate *RateCase `json:"rate,omitempty"`
	Div  *DivCase  `json:"divider,omitempty"`
	Util *UtilCase `json:"helpers,omitempty"`
}

// ConcCase : several goroutines, each repeating its own list of calls. Maps (which the dividers
// write to) are never shared. Priority slices are private copies too, unless SharedPrios is set:
// then every goroutine runs the call list of the first one and they all hand the very same
// priority slices to the library, which only has to read them.
type ConcCase struct {
	Workers     [][]Call `json:"workers"`
	Rounds      int      `json:"rounds"`
	SharedPrios bool     `json:"goroutines_share_the_priority_slices"`
}

func fmtMap(m map[uint]uint) string {
	ks := make([]uint, 0, len(m))
	for k := range m {
		ks = append(ks, k)
	}
	sort.Slice(ks, func(i, j int) bool { return ks[i] < ks[j] })
	s := ""
	for _, k := range ks {
		s += fmt.Sprintf("%d:%d ", k, m[k])
	}
	return s
}

// result runs the call and renders everything it returned. own: the priority slice is copied first.
func (c Call) result(own bool) string {
	prios := func(p []uint) []uint {
		if own {
			return append([]uint(nil), p...)
		}
		return p
	}
	switch {
	case c.Rate != nil:
		rt := limit.Rate{Interval: time.Duration(c.Rate.I), Quantity: c.Rate.Q}
		a, ae := rt.Recalculate(time.Duration(c.Rate.Min))
		b, be := rt.Optimize()
		f, fe := rt.Flatten()
		return fmt.Sprint(a, ae, b, be, f, fe, rt.IsValid())
	case c.Div != nil:
		d2, d1 := dividers(c.Div.Which)
		m2 := cloneMap(c.Div.Pre)
		d2(prios(c.Div.Prios), c.Div.Dividend, m2)
		m1 := d1(prios(c.Div.Prios), c.Div.Dividend, cloneMap(c.Div.Pre))
		return fmtMap(m2) + "| " + fmtMap(m1)
	default:
		u := c.Util
		d2, d1 := dividers(u.Which)
		p := prios(u.Prios)
		return fmt.Sprint(
			utils.IsNonFatalConfig(p, d2, u.Q), v1.IsNonFatalConfig(p, d1, u.Q),
			utils.IsSuitableConfig(p, d2, u.Q, u.Limit1), v1.IsSuitableConfig(p, d1, u.Q, u.Limit1),
			utils.PickUpMinNonFatalQuantity(p, d2, u.Max), utils.PickUpMaxNonFatalQuantity(p, d2, u.Max),
			utils.PickUpMinSuitableQuantity(p, d2, u.Max, u.Limit2), utils.PickUpMaxSuitableQuantity(p, d2, u.Max, u.Limit2),
			v1.PickUpMinNonFatalQuantity(p, d1, u.Max), v1.PickUpMaxNonFatalQuantity(p, d1, u.Max),
			v1.PickUpMinSuitableQuantity(p, d1, u.Max, u.Limit2), v1.PickUpMaxSuitableQuantity(p, d1, u.Max, u.Limit2),
			p)
	}
}

// CheckConc : the calls give the same results from many goroutines at once as they give one
// after another (the race detector, when the binary is built with it, is the second oracle).
func CheckConc(c ConcCase) error {
	if c.SharedPrios {
		for w := range c.Workers {
			c.Workers[w] = c.Workers[0] // the same Call values: the same slice headers
		}
	}
	want := make([][]string, len(c.Workers))
	for w, calls := range c.Workers {
		for _, cl := range calls {
			want[w] = append(want[w], cl.result(true))
		}
	}
	var (
		wg    sync.WaitGroup
		mu    sync.Mutex
		first error
	)
	start := make(chan struct{})
	for w, calls := range c.Workers {
		wg.Add(1)
		go func(w int, calls []Call) {
			defer wg.Done()
			<-start
			for r := 0; r < c.Rounds; r++ {
				for i, cl := range calls {
					if got := cl.result(!c.SharedPrios); got != want[w][i] {
						mu.Lock()
						if first == nil {
							first = fmt.Errorf("goroutine %d, round %d, call %d: result %q while other goroutines were calling the library, %q when called alone", w, r, i, got, want[w][i])
						}
						mu.Unlock()
						return
					}
				}
			}
		}(w, calls)
	}
	close(start)
	wg.Wait()
	return first
}

// GenConc draws 2..8 workers with 1..6 calls each.
func GenConc(thorough bool) *rapid.Generator[ConcCase] {
	return rapid.Custom(func(t *rapid.T) ConcCase {
		rate, div, util := GenRate(thorough), GenDiv(thorough), GenUtil(false)
		c := ConcCase{Rounds: rapid.SampledFrom([]int{20, 100, 400}).Draw(t, "rounds"), SharedPrios: rapid.IntRange(0, 2).Draw(t, "sharedprios") == 0}
		nw := rapid.IntRange(2, 8).Draw(t, "workers")
		kind := rapid.IntRange(0, 3).Draw(t, "kind") // 0..2: every worker uses one family, 3: mixed
		for w := 0; w < nw; w++ {
			var calls []Call
			for i, n := 0, rapid.IntRange(1, 6).Draw(t, "calls"); i < n; i++ {
				k := kind
				if k == 3 {
					k = rapid.IntRange(0, 2).Draw(t, "k")
				}
				switch k {
				case 0:
					r := rate.Draw(t, "rate")
					calls = append(calls, Call{Rate: &r})
				case 1:
					d := div.Draw(t, "div")
					calls = append(calls, Call{Div: &d})
				default:
					u := util.Draw(t, "util")
					if u.Max > 24 {
						u.Max = 24
					}
					calls = append(calls, Call{Util: &u})
				}
			}
			c.Workers = append(c.Workers, calls)
		}
		return c
	})
}

// RateConc : the C13 oracle applied while several goroutines convert rates at the same time (the
// conversions are value methods on independent values: what one goroutine does must not change
// what another one gets).
type RateConc struct {
	Workers [][]RateCase `json:"workers"`
	Rounds  int          `json:"rounds"`
}

// CheckRateConc runs CheckC13 on every case from all goroutines at once.
func CheckRateConc(c RateConc) error {
	var (
		wg    sync.WaitGroup
		mu    sync.Mutex
		first error
	)
	start := make(chan struct{})
	for w, cases := range c.Workers {
		wg.Add(1)
		go func(w int, cases []RateCase) {
			defer wg.Done()
			<-start
			for r := 0; r < c.Rounds; r++ {
				for i, rc := range cases {
					if err := CheckC13(rc); err != nil {
						mu.Lock()
						if first == nil {
							first = fmt.Errorf("goroutine %d, round %d, case %d %+v, while other goroutines were converting rates: %w", w, r, i, rc, err)
						}
						mu.Unlock()
						return
					}
				}
			}
		}(w, cases)
	}
	close(start)
	wg.Wait()
	return first
}

// GenRateConc draws 2..8 goroutines with 1..6 rates each.
func GenRateConc(thorough bool) *rapid.Generator[RateConc] {
	return rapid.Custom(func(t *rapid.T) RateConc {
		rate := GenRate(thorough)
		c := RateConc{Rounds: rapid.SampledFrom([]int{10, 50, 200}).Draw(t, "rounds")}
		for w, nw := 0, rapid.IntRange(2, 8).Draw(t, "workers"); w < nw; w++ {
			c.Workers = append(c.Workers, rapid.SliceOfN(rate, 1, 6).Draw(t, "cases"))
		}
		return c
	})
}
