package pure

import (
	"fmt"
	"sort"

	v1 "github.com/akramarenkov/cqos/priority"
	"github.com/akramarenkov/cqos/v2/priority"
	"github.com/akramarenkov/cqos/v2/priority/divider"
	"github.com/akramarenkov/cqos/v2/priority/utils"
	"pgregory.net/rapid"
)

// UtilCase is one input of the handler-quantity helpers.
type UtilCase struct {
	Which  string  `json:"divider"`
	Prios  []uint  `json:"priorities"` // order as given by a user (unsorted)
	Q      uint    `json:"quantity"`
	Max    uint    `json:"max_quantity"`
	Limit1 float64 `json:"limit1_percent"`
	Limit2 float64 `json:"limit2_percent"`
}

func dividers(which string) (divider.Divider, v1.Divider) {
	if which == "fair" {
		return divider.Fair, v1.FairDivider
	}
	return divider.Rate, v1.RateDivider
}

// bruteNonFatal evaluates the definition: every member of every non-empty subset (sorted
// from highest to lowest) gets at least one unit of q. A member without an entry has 0.
func bruteNonFatal(prios []uint, d divider.Divider, q uint) (bool, []uint) {
	sorted := append([]uint(nil), prios...)
	sort.Slice(sorted, func(i, j int) bool { return sorted[i] > sorted[j] })
	n := len(sorted)
	for mask := 1; mask < 1<<n; mask++ {
		var sub []uint
		for i := 0; i < n; i++ {
			if mask&(1<<i) != 0 {
				sub = append(sub, sorted[i])
			}
		}
		m := map[uint]uint{}
		d(sub, q, m)
		for _, p := range sub {
			if m[p] == 0 {
				return false, sub
			}
		}
	}
	return true, nil
}

// CheckC18 compares the helpers with their definition.
func CheckC18(c UtilCase) error {
	d2, d1 := dividers(c.Which)
	prios := append([]uint(nil), c.Prios...)

	got := utils.IsNonFatalConfig(prios, d2, c.Q)
	want, witness := bruteNonFatal(c.Prios, d2, c.Q)
	if got != want {
		return fmt.Errorf("IsNonFatalConfig(%v, %s, %d) = %v, definition says %v (subset %v leaves a member without a unit)", c.Prios, c.Which, c.Q, got, want, witness)
	}
	if g1 := v1.IsNonFatalConfig(prios, d1, c.Q); g1 != want {
		return fmt.Errorf("v1 IsNonFatalConfig(%v, %s, %d) = %v, definition says %v (subset %v)", c.Prios, c.Which, c.Q, g1, want, witness)
	}
	for i := range prios {
		if prios[i] != c.Prios[i] {
			return fmt.Errorf("helpers modified the caller's priorities slice: %v -> %v", c.Prios, prios)
		}
	}

	lo, hi := c.Limit1, c.Limit2
	if lo > hi {
		lo, hi = hi, lo
	}
	sLo := utils.IsSuitableConfig(prios, d2, c.Q, lo)
	sHi := utils.IsSuitableConfig(prios, d2, c.Q, hi)
	if sLo && !want {
		return fmt.Errorf("IsSuitableConfig(%v, %s, %d, %v) is true but the configuration is fatal (subset %v)", c.Prios, c.Which, c.Q, lo, witness)
	}
	if sHi && !want {
		return fmt.Errorf("IsSuitableConfig(%v, %s, %d, %v) is true but the configuration is fatal (subset %v)", c.Prios, c.Which, c.Q, hi, witness)
	}
	if sLo && !sHi {
		return fmt.Errorf("IsSuitableConfig(%v, %s, %d, .) is not monotone in the limit: true at %v, false at %v", c.Prios, c.Which, c.Q, lo, hi)
	}
	if a, b := v1.IsSuitableConfig(prios, d1, c.Q, lo), v1.IsSuitableConfig(prios, d1, c.Q, hi); a != sLo || b != sHi {
		return fmt.Errorf("v1 and v2 IsSuitableConfig disagree for (%v, %s, %d): v1 %v/%v v2 %v/%v", c.Prios, c.Which, c.Q, a, b, sLo, sHi)
	}

	// pick-up functions against a linear scan of the predicates
	minNF, maxNF, minNFb, maxNFb := uint(0), uint(0), uint(0), uint(0)
	minS, maxS := uint(0), uint(0)
	for q := uint(1); q <= c.Max; q++ {
		if utils.IsNonFatalConfig(prios, d2, q) {
			if minNF == 0 {
				minNF = q
			}
			maxNF = q
		}
		if ok, _ := bruteNonFatal(c.Prios, d2, q); ok {
			if minNFb == 0 {
				minNFb = q
			}
			maxNFb = q
		}
		if utils.IsSuitableConfig(prios, d2, q, hi) {
			if minS == 0 {
				minS = q
			}
			maxS = q
		}
	}
	type pick struct {
		name      string
		got, want uint
	}
	picks := []pick{
		{"PickUpMinNonFatalQuantity", utils.PickUpMinNonFatalQuantity(prios, d2, c.Max), minNF},
		{"PickUpMaxNonFatalQuantity", utils.PickUpMaxNonFatalQuantity(prios, d2, c.Max), maxNF},
		{"PickUpMinNonFatalQuantity(definition)", utils.PickUpMinNonFatalQuantity(prios, d2, c.Max), minNFb},
		{"PickUpMaxNonFatalQuantity(definition)", utils.PickUpMaxNonFatalQuantity(prios, d2, c.Max), maxNFb},
		{"PickUpMinSuitableQuantity", utils.PickUpMinSuitableQuantity(prios, d2, c.Max, hi), minS},
		{"PickUpMaxSuitableQuantity", utils.PickUpMaxSuitableQuantity(prios, d2, c.Max, hi), maxS},
		{"v1 PickUpMinNonFatalQuantity", v1.PickUpMinNonFatalQuantity(prios, d1, c.Max), minNFb},
		{"v1 PickUpMaxNonFatalQuantity", v1.PickUpMaxNonFatalQuantity(prios, d1, c.Max), maxNFb},
		{"v1 PickUpMinSuitableQuantity", v1.PickUpMinSuitableQuantity(prios, d1, c.Max, hi), minS},
		{"v1 PickUpMaxSuitableQuantity", v1.PickUpMaxSuitableQuantity(prios, d1, c.Max, hi), maxS},
	}
	for _, p := range picks {
		if p.got != p.want {
			return fmt.Errorf("%s(%v, %s, max=%d, limit=%v) = %d, linear scan of [1,max] gives %d", p.name, c.Prios, c.Which, c.Max, hi, p.got, p.want)
		}
	}

	// non-fatal => accepted by the v2 constructor
	if got && c.Q > 0 {
		inputs := map[uint]<-chan int{}
		for _, p := range c.Prios {
			ch := make(chan int)
			close(ch)
			inputs[p] = ch
		}
		dsc, err := priority.New(priority.Opts[int]{Divider: d2, HandlersQuantity: c.Q, Inputs: inputs})
		if err != nil {
			return fmt.Errorf("IsNonFatalConfig(%v, %s, %d) is true but v2 priority.New rejects it: %v", c.Prios, c.Which, c.Q, err)
		}
		for range dsc.Output() {
		}
		<-dsc.Err()
	}
	return nil
}

// UtilShape : non-trivial = n >= 3 and the non-fatal predicate is not constant over [1,max].
func UtilShape(c UtilCase) (bool, []string) {
	d2, _ := dividers(c.Which)
	cl := []string{fmt.Sprintf("n=%d", len(c.Prios)), c.Which}
	seenT, seenF := false, false
	for q := uint(1); q <= c.Max; q++ {
		if ok, _ := bruteNonFatal(c.Prios, d2, q); ok {
			seenT = true
		} else {
			seenF = true
		}
	}
	if ok, _ := bruteNonFatal(c.Prios, d2, c.Q); ok {
		cl = append(cl, "q-nonfatal")
	} else {
		cl = append(cl, "q-fatal")
	}
	return len(c.Prios) >= 3 && seenT && seenF, cl
}

// GenUtil draws helper inputs.
func GenUtil(thorough bool) *rapid.Generator[UtilCase] {
	return rapid.Custom(func(t *rapid.T) UtilCase {
		c := UtilCase{Which: rapid.SampledFrom([]string{"fair", "rate"}).Draw(t, "which")}
		nmax := 5
		if thorough {
			nmax = 6
		}
		pr := GenPrios(t, nmax, false)
		// user order: a drawn permutation
		perm := rapid.Permutation(pr).Draw(t, "perm")
		c.Prios = perm
		maxq := 60
		if thorough {
			maxq = 300
		}
		c.Q = uint(rapid.IntRange(0, maxq).Draw(t, "q"))
		c.Max = uint(rapid.IntRange(0, maxq).Draw(t, "max"))
		lim := rapid.SampledFrom([]float64{0, 1, 5, 10, 12.5, 20, 33.3, 50, 75, 100}).Draw(t, "l1")
		c.Limit1 = lim
		c.Limit2 = rapid.SampledFrom([]float64{0, 1, 5, 10, 12.5, 20, 33.3, 50, 75, 100}).Draw(t, "l2")
		return c
	})
}
