// Package pure holds the checks of the pure functions: Rate conversion (C13), the
// dividers (C14) and the handler-quantity helpers (C18).
package pure

import (
	"fmt"
	"math"
	"math/big"
	"time"

	"github.com/akramarenkov/cqos/v2/limit"
	"pgregory.net/rapid"
)

// RateCase is one input of Rate.Recalculate.
type RateCase struct {
	I   int64  `json:"interval_ns"`
	Q   uint64 `json:"quantity"`
	Min int64  `json:"minimum_ns"`
}

func bi(v int64) *big.Int        { return big.NewInt(v) }
func bu(v uint64) *big.Int       { return new(big.Int).SetUint64(v) }
func mul(a, b *big.Int) *big.Int { return new(big.Int).Mul(a, b) }
func sub(a, b *big.Int) *big.Int { return new(big.Int).Sub(a, b) }

var two64 = new(big.Int).Lsh(big.NewInt(1), 64)

// CheckRecalculate is the C13 oracle for one call, in exact integer arithmetic.
func CheckRecalculate(c RateCase, res limit.Rate, err error) error {
	validIn := c.I > 0 && c.Q > 0
	if err != nil {
		if res != (limit.Rate{}) {
			return fmt.Errorf("error %q returned together with a non-zero rate %+v", err, res)
		}
		if !validIn || c.Min < 0 {
			return nil
		}
		if c.Min == 0 && uint64(c.I)/c.Q == 0 {
			return nil
		}
		quo := new(big.Int).Quo(mul(bu(c.Q), bi(c.Min)), bi(c.I))
		if uint64(c.I)/c.Q <= uint64(c.Min) && quo.Cmp(two64) >= 0 {
			return nil
		}
		return fmt.Errorf("error %q for a convertible input (floor(I/Q)=%d, floor(Q*min/I)=%s)", err, uint64(c.I)/c.Q, quo)
	}
	if !validIn {
		return fmt.Errorf("no error for an invalid rate, result %+v", res)
	}
	if c.Min < 0 {
		return fmt.Errorf("no error for a negative minimum, result %+v", res)
	}
	if e := res.IsValid(); e != nil {
		return fmt.Errorf("result %+v is not a valid rate (%v) and no error was returned", res, e)
	}
	ri, rq := int64(res.Interval), res.Quantity
	if ri < c.Min {
		return fmt.Errorf("result interval %d is below the minimum %d", ri, c.Min)
	}
	if rq != 1 && ri != c.Min {
		return fmt.Errorf("result %+v: quantity is not 1 although the interval is not the minimum %d", res, c.Min)
	}
	// speed: new rq/ri against original Q/I
	lhs := mul(bu(rq), bi(c.I)) // rq*I
	rhs := mul(bu(c.Q), bi(ri)) // Q*ri
	switch lhs.Cmp(rhs) {
	case 1: // faster: per-element interval shorter by less than 1 ns: I/Q - ri/rq < 1
		if sub(lhs, rhs).Cmp(mul(bu(c.Q), bu(rq))) >= 0 {
			return fmt.Errorf("result %+v is faster than %d per %dns by one nanosecond per element or more", res, c.Q, c.I)
		}
	case -1: // slower: fewer elements per new interval by less than one: Q*ri/I - rq < 1
		if sub(rhs, lhs).Cmp(bi(c.I)) >= 0 {
			return fmt.Errorf("result %+v is slower than %d per %dns by one element per interval or more", res, c.Q, c.I)
		}
	}
	return nil
}

// CheckC13 runs Recalculate, Optimize and Flatten on the case.
func CheckC13(c RateCase) error {
	rt := limit.Rate{Interval: time.Duration(c.I), Quantity: c.Q}
	res, err := rt.Recalculate(time.Duration(c.Min))
	if e := CheckRecalculate(c, res, err); e != nil {
		return fmt.Errorf("Recalculate(%d): %w", c.Min, e)
	}
	o, oerr := rt.Optimize()
	if e := CheckRecalculate(RateCase{c.I, c.Q, int64(limit.OptimizationInterval)}, o, oerr); e != nil {
		return fmt.Errorf("Optimize(): %w", e)
	}
	o2, oerr2 := rt.Recalculate(limit.OptimizationInterval)
	if o != o2 || (oerr == nil) != (oerr2 == nil) {
		return fmt.Errorf("Optimize() = %+v,%v differs from Recalculate(10ms) = %+v,%v", o, oerr, o2, oerr2)
	}
	f, ferr := rt.Flatten()
	if e := CheckRecalculate(RateCase{c.I, c.Q, 0}, f, ferr); e != nil {
		return fmt.Errorf("Flatten(): %w", e)
	}
	f2, ferr2 := rt.Recalculate(0)
	if f != f2 || (ferr == nil) != (ferr2 == nil) {
		return fmt.Errorf("Flatten() = %+v,%v differs from Recalculate(0) = %+v,%v", f, ferr, f2, ferr2)
	}
	return nil
}

// RateShape classifies a case for the evidence.
func RateShape(c RateCase) (nontrivial bool, classes []string) {
	if c.I <= 0 || c.Q == 0 || c.Min < 0 {
		return false, []string{"invalid-input"}
	}
	fl := uint64(c.I) / c.Q
	m := uint64(c.Min)
	switch {
	case fl == m && uint64(c.I)%c.Q != 0:
		classes = append(classes, "floor==min,remainder")
		nontrivial = true
	case fl == m:
		classes = append(classes, "floor==min,exact")
		nontrivial = true
	case fl+1 == m || (m > 0 && fl == m+1) || fl == m-1:
		classes = append(classes, "floor==min±1")
		nontrivial = true
	case fl > m:
		classes = append(classes, "interval-branch")
	default:
		classes = append(classes, "quantity-branch")
		nontrivial = true
	}
	if c.Min == 0 {
		classes = append(classes, "min=0")
	}
	quo := new(big.Int).Quo(mul(bu(c.Q), bi(c.Min)), bi(c.I))
	if quo.Cmp(new(big.Int).Rsh(two64, 2)) >= 0 {
		classes = append(classes, "quantity-near-2^64")
		nontrivial = true
	}
	return
}

func logUniform64(t *rapid.T, label string, maxBits int) uint64 {
	b := rapid.IntRange(0, maxBits).Draw(t, label+"_bits")
	if b == 0 {
		return rapid.Uint64Range(0, 1).Draw(t, label)
	}
	lo := uint64(1) << (b - 1)
	hi := lo<<1 - 1
	if b == 64 {
		hi = math.MaxUint64
	}
	return rapid.Uint64Range(lo, hi).Draw(t, label)
}

// GenRate draws Recalculate inputs over the full ranges plus boundary constructions.
func GenRate(thorough bool) *rapid.Generator[RateCase] {
	return rapid.Custom(func(t *rapid.T) RateCase {
		mode := rapid.IntRange(0, 9).Draw(t, "mode")
		switch {
		case mode <= 3:
			// boundary construction: I = m*Q + r, 0 <= r < Q, minimum in {m-1, m, m+1}
			m := logUniform64(t, "m", 40)
			q := logUniform64(t, "q", 22)
			if q == 0 {
				q = 1
			}
			r := rapid.Uint64Range(0, q-1).Draw(t, "r")
			i := m*q + r
			if i == 0 || i > math.MaxInt64 {
				i = 1
			}
			d := rapid.SampledFrom([]int64{-1, 0, 0, 1}).Draw(t, "d")
			min := int64(m) + d
			if min < 0 {
				min = 0
			}
			if rapid.IntRange(0, 5).Draw(t, "opt") == 0 {
				// around the Optimize constant
				q = rapid.Uint64Range(1, 1000).Draw(t, "qo")
				r = rapid.Uint64Range(0, q-1).Draw(t, "ro")
				i = uint64(10*time.Millisecond)*q + r
				min = int64(10 * time.Millisecond)
			}
			return RateCase{I: int64(i), Q: q, Min: min}
		case mode <= 7:
			i := logUniform64(t, "i", 63)
			if i == 0 {
				i = 1
			}
			q := logUniform64(t, "q", 64)
			if q == 0 {
				q = 1
			}
			min := logUniform64(t, "min", 63)
			return RateCase{I: int64(i), Q: q, Min: int64(min)}
		case mode == 8:
			// products near 2^64: Q*min/I around 2^64
			i := int64(rapid.Uint64Range(1, 1<<20).Draw(t, "i"))
			q := logUniform64(t, "q", 64)
			if q == 0 {
				q = 1
			}
			// min ~ 2^64 * i / q
			target := new(big.Int).Quo(mul(two64, bi(i)), bu(q))
			delta := int64(rapid.IntRange(-3, 3).Draw(t, "delta"))
			target.Add(target, bi(delta))
			min := int64(0)
			if target.Sign() > 0 && target.IsInt64() {
				min = target.Int64()
			} else if target.Sign() > 0 {
				min = math.MaxInt64
			}
			return RateCase{I: i, Q: q, Min: min}
		default:
			// invalid inputs
			return RateCase{
				I:   rapid.SampledFrom([]int64{0, -1, math.MinInt64, 5, 1000}).Draw(t, "i"),
				Q:   rapid.SampledFrom([]uint64{0, 1, 7}).Draw(t, "q"),
				Min: rapid.SampledFrom([]int64{-1, 0, 3, math.MinInt64}).Draw(t, "min"),
			}
		}
	})
}
