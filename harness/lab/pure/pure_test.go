package pure

import (
	"encoding/json"
	"fmt"
	"testing"

	"cqosverif/internal/evid"

	"pgregory.net/rapid"
)

var propC13 = evid.Prop[RateCase]{
	ID:   "C13",
	Rule: "rapid-generated (Interval, Quantity, minimum) over the full 64-bit ranges with log-uniform magnitudes, boundary construction Interval = m*Quantity + r with minimum in {m-1,m,m+1}, products near 2^64 and invalid inputs; oracle in math/big; non-trivial = floor(I/Q) within 1 of the minimum, or the quantity branch is taken, or the converted quantity is within 2 bits of 2^64; distinct = distinct input triple",
	Gen:  GenRate,
	Run: func(c RateCase) evid.Outcome {
		nt, cl := RateShape(c)
		return evid.Outcome{Err: CheckC13(c), NonTrivial: nt, Classes: cl, Summary: "see script"}
	},
}

func TestC13(t *testing.T) { evid.Run(t, propC13) }

// TestC13Conc : the same oracle while 2..8 goroutines convert rates concurrently.
func TestC13Conc(t *testing.T) {
	evid.Run(t, evid.Prop[RateConc]{
		ID:   "C13",
		Rule: "2..8 goroutines, each repeating (10..200 rounds) its own list of 1..6 generated (Interval, Quantity, minimum) triples through Recalculate/Optimize/Flatten at the same time, every result checked against the math/big oracle; non-trivial = at least one case of some goroutine takes the quantity branch; distinct = distinct case JSON",
		Gen:  GenRateConc,
		Run: func(c RateConc) evid.Outcome {
			nt := false
			for _, w := range c.Workers {
				for _, rc := range w {
					if rc.I > 0 && rc.Q > 0 && rc.Min > 0 && uint64(rc.I)/rc.Q < uint64(rc.Min) {
						nt = true
					}
				}
			}
			return evid.Outcome{Err: CheckRateConc(c), NonTrivial: nt, Classes: []string{"concurrent"}, Summary: "see script"}
		},
	})
}

// FuzzC13 drives the same property with the coverage-guided native fuzzer (thorough tier).
func FuzzC13(f *testing.F) {
	f.Add(int64(20000001), uint64(2), int64(10000000))
	f.Add(int64(2353), uint64(49), int64(48))
	f.Add(int64(1), uint64(1), int64(0))
	f.Add(int64(1<<62), uint64(1<<63), int64(1<<62))
	f.Add(int64(10000000), uint64(1), int64(10000000))
	f.Add(int64(3), uint64(1<<63), int64(1<<62))
	f.Fuzz(func(t *testing.T, i int64, q uint64, min int64) {
		if err := CheckC13(RateCase{I: i, Q: q, Min: min}); err != nil {
			js, _ := json.Marshal(RateCase{I: i, Q: q, Min: min})
			t.Fatalf("C13 violated: %v\nVERIF-FUZZ-CASE %s", err, js)
		}
	})
}

func TestC14(t *testing.T) {
	evid.Run(t, evid.Prop[DivCase]{
		ID:   "C14",
		Rule: "rapid-generated (divider, 1..8 distinct priorities sorted high to low incl. the value 0 (so also the list [0]) and magnitudes up to 2^44 (sums beyond 2^32), dividend 0..2^32 with dividend*priority < 2^53, pre-filled distribution with listed and foreign keys, v1 called with nil or non-nil map); oracle: conservation, untouched foreign keys, order and tolerance in math/big, v1 == v2; non-trivial = n >= 2 and (Fair) dividend mod n != 0 or (Rate) a rounding, truncation or left-over branch is taken; distinct = distinct case JSON",
		Gen:  GenDiv,
		Run: func(c DivCase) evid.Outcome {
			nt, cl := DivShape(c)
			return evid.Outcome{Err: CheckC14(c), NonTrivial: nt, Classes: cl, Summary: "see script"}
		},
	})
}

// TestC14Seq : the same oracle over short sequences of calls.
func TestC14Seq(t *testing.T) {
	evid.Run(t, evid.Prop[DivSeq]{
		ID:   "C14",
		Rule: "sequences of 2..5 divider calls in one process; a later call usually keeps the divider, the dividend, the length and the sum of the previous list and moves 1..3 units from one priority to another; every call is checked by the C14 oracle (conservation, order, tolerance, v1 == v2); non-trivial = at least one call repeats dividend, length and sum of its predecessor with another list; distinct = distinct case JSON",
		Gen:  GenDivSeq,
		Run: func(q DivSeq) evid.Outcome {
			nt := false
			for i := 1; i < len(q.Calls); i++ {
				a, b := q.Calls[i-1], q.Calls[i]
				if a.Dividend == b.Dividend && len(a.Prios) == len(b.Prios) && fmt.Sprint(a.Prios) != fmt.Sprint(b.Prios) {
					sa, sb := uint(0), uint(0)
					for _, p := range a.Prios {
						sa += p
					}
					for _, p := range b.Prios {
						sb += p
					}
					nt = nt || sa == sb
				}
			}
			return evid.Outcome{Err: CheckDivSeq(q), NonTrivial: nt, Classes: []string{fmt.Sprintf("calls=%d", len(q.Calls))}, Summary: "see script"}
		},
	})
}

func TestC18(t *testing.T) {
	evid.Run(t, evid.Prop[UtilCase]{
		ID:   "C18",
		Rule: "rapid-generated (Fair|Rate, 1..6 distinct priorities in user order, q and max in 0..300 (quick: 0..60), two limits from 0..100 %); oracle: bit-mask enumeration of all subsets with the 'every listed member has >= 1' definition, linear scans for the pick-up functions, v1 == v2, v2 priority.New accepts what is judged non-fatal; non-trivial = n >= 3 and the non-fatal predicate is not constant over [1,max]; distinct = distinct case JSON",
		Gen:  GenUtil,
		Run: func(c UtilCase) evid.Outcome {
			nt, cl := UtilShape(c)
			return evid.Outcome{Err: CheckC18(c), NonTrivial: nt, Classes: cl, Summary: "see script"}
		},
	})
}

// TestC20 : the pure functions called from many goroutines at once, each with arguments of its own
// (the driver builds this binary with -race).
func TestC20(t *testing.T) {
	evid.Run(t, evid.Prop[ConcCase]{
		ID:   "C20",
		Rule: "2..8 goroutines, each repeating (20..400 rounds) its own list of 1..6 calls of the pure API (Rate.Recalculate/Optimize/Flatten/IsValid, Fair/Rate dividers of both versions, IsNonFatalConfig/IsSuitableConfig/PickUp* of both versions) with maps of their own and priority slices that are either private or (a third of the cases) shared read-only by all goroutines, released together; oracle = race detector plus equality with the results of the same calls made one after another; non-trivial = at least 2 goroutines with at least 4 calls in total; distinct = distinct case JSON",
		Gen:  GenConc,
		Run: func(c ConcCase) evid.Outcome {
			n := 0
			for _, w := range c.Workers {
				n += len(w)
			}
			return evid.Outcome{Err: CheckConc(c), NonTrivial: len(c.Workers) >= 2 && n >= 4, Classes: []string{"pure-concurrent"}, Summary: "see script"}
		},
	})
}

var _ = rapid.Bool
