package pure

import (
	"fmt"
	"math/big"
	"sort"

	v1 "github.com/akramarenkov/cqos/priority"
	"github.com/akramarenkov/cqos/v2/priority/divider"
	"pgregory.net/rapid"
)

// DivCase is one divider call.
type DivCase struct {
	Which    string        `json:"divider"` // fair | rate
	Prios    []uint        `json:"priorities"`
	Dividend uint          `json:"dividend"`
	Pre      map[uint]uint `json:"prefilled"`
	V1Nil    bool          `json:"v1_nil_map"`
}

func cloneMap(m map[uint]uint) map[uint]uint {
	c := make(map[uint]uint, len(m))
	for k, v := range m {
		c[k] = v
	}
	return c
}

func mapsEqual(a, b map[uint]uint) bool {
	if len(a) != len(b) {
		return false
	}
	for k, v := range a {
		if w, ok := b[k]; !ok || w != v {
			return false
		}
	}
	return true
}

// CheckC14 is the divider oracle.
func CheckC14(c DivCase) error {
	var d2 divider.Divider
	var d1 v1.Divider
	switch c.Which {
	case "fair":
		d2, d1 = divider.Fair, v1.FairDivider
	default:
		d2, d1 = divider.Rate, v1.RateDivider
	}
	pre := c.Pre
	if pre == nil {
		pre = map[uint]uint{}
	}
	listed := map[uint]bool{}
	for _, p := range c.Prios {
		listed[p] = true
	}
	prios := append([]uint(nil), c.Prios...)
	got := cloneMap(pre)
	d2(prios, c.Dividend, got)
	for i := range prios {
		if prios[i] != c.Prios[i] {
			return fmt.Errorf("v2 divider modified the priorities list: %v -> %v", c.Prios, prios)
		}
	}
	// conservation, nothing else changed
	total := new(big.Int)
	incs := make([]uint, len(prios))
	for k, v := range got {
		if listed[k] {
			continue
		}
		if w, ok := pre[k]; !ok || w != v {
			return fmt.Errorf("entry of unlisted priority %d changed: %d -> %d (existed before: %v)", k, pre[k], v, ok)
		}
	}
	for k := range pre {
		if _, ok := got[k]; !ok {
			return fmt.Errorf("entry of priority %d was removed", k)
		}
	}
	for i, p := range prios {
		if got[p] < pre[p] {
			return fmt.Errorf("entry of priority %d decreased: %d -> %d", p, pre[p], got[p])
		}
		incs[i] = got[p] - pre[p]
		total.Add(total, bu(uint64(incs[i])))
	}
	if total.Cmp(bu(uint64(c.Dividend))) != 0 {
		return fmt.Errorf("%s(%v, %d): added total %s differs from the dividend (increments %v)", c.Which, c.Prios, c.Dividend, total, incs)
	}
	n := len(prios)
	for i := 1; i < n; i++ {
		if incs[i] > incs[i-1] {
			return fmt.Errorf("%s(%v, %d): increments %v are not non-increasing along the list", c.Which, c.Prios, c.Dividend, incs)
		}
	}
	if c.Which == "fair" {
		if incs[0]-incs[n-1] > 1 {
			return fmt.Errorf("fair(%v, %d): increments %v differ by more than one", c.Prios, c.Dividend, incs)
		}
	} else {
		// |inc_i - D*p_i/S| <= n/2 + n*2^-16, exact rationals
		s := new(big.Int)
		for _, p := range prios {
			s.Add(s, bu(uint64(p)))
		}
		tol := new(big.Rat).Add(big.NewRat(int64(n), 2), big.NewRat(int64(n), 1<<16))
		for i, p := range prios {
			if s.Sign() == 0 {
				break // the list is [0]: no proportion is defined, conservation decides
			}
			exact := new(big.Rat).SetFrac(mul(bu(uint64(c.Dividend)), bu(uint64(p))), s)
			diff := new(big.Rat).Sub(new(big.Rat).SetInt(bu(uint64(incs[i]))), exact)
			if diff.Abs(diff).Cmp(tol) > 0 {
				return fmt.Errorf("rate(%v, %d): increment %d of priority %d is %s away from the exact share %s (allowed %s)", c.Prios, c.Dividend, incs[i], p, diff.FloatString(3), exact.FloatString(3), tol.FloatString(3))
			}
		}
	}
	// v1 == v2
	var in1 map[uint]uint
	if !(c.V1Nil && len(pre) == 0) {
		in1 = cloneMap(pre)
	}
	out1 := d1(append([]uint(nil), c.Prios...), c.Dividend, in1)
	if in1 != nil {
		// must update in place and return it
		if !mapsEqual(in1, out1) {
			return fmt.Errorf("v1 %s divider returned a map different from the one it was given: %v vs %v", c.Which, out1, in1)
		}
	}
	want := got
	if !mapsEqual(out1, want) {
		return fmt.Errorf("v1 and v2 %s dividers disagree for (%v, %d, %v): v1 %v, v2 %v", c.Which, c.Prios, c.Dividend, pre, out1, want)
	}
	return nil
}

// DivShape classifies a divider case.
func DivShape(c DivCase) (bool, []string) {
	n := len(c.Prios)
	var cl []string
	nt := false
	if n >= 2 {
		if c.Which == "fair" {
			if c.Dividend%uint(n) != 0 {
				nt = true
				cl = append(cl, "fair-remainder")
			}
		} else {
			// truncation or left-over branch: detect by running the divider on an empty map
			m := map[uint]uint{}
			divider.Rate(c.Prios, c.Dividend, m)
			if len(m) < n {
				nt = true
				cl = append(cl, "rate-truncated")
			} else {
				s := uint(0)
				for _, p := range c.Prios {
					s += p
				}
				if s != 0 && (c.Dividend%s) != 0 {
					nt = true
					cl = append(cl, "rate-rounded")
				}
			}
		}
	}
	if len(c.Pre) > 0 {
		cl = append(cl, "prefilled")
	}
	cl = append(cl, fmt.Sprintf("n=%d", n))
	return nt, cl
}

// GenPrios draws 1..max distinct priorities sorted from highest to lowest.
func GenPrios(t *rapid.T, max int, big bool) []uint {
	n := rapid.IntRange(1, max).Draw(t, "n")
	set := map[uint]bool{}
	var out []uint
	for len(out) < n {
		var p uint
		switch rapid.IntRange(0, 9).Draw(t, "pm") {
		case 0, 1, 2, 3, 4:
			p = uint(rapid.IntRange(1, 12).Draw(t, "p"))
		case 5, 6:
			p = rapid.SampledFrom([]uint{1, 2, 3, 4, 5, 7, 10, 20, 50, 70, 100, 1000}).Draw(t, "p")
		case 7, 8:
			p = uint(rapid.IntRange(1, 300).Draw(t, "p"))
		default:
			if big {
				// "up to large magnitudes": sums beyond 2^32 as well; the dividend is cut below so
				// that dividend*priority stays exactly representable
				p = uint(logUniform64(t, "pbig", 44))
			} else {
				p = uint(rapid.IntRange(1, 100).Draw(t, "p"))
			}
		}
		if rapid.IntRange(0, 15).Draw(t, "zero") == 0 {
			p = 0 // a legal priority value: the list [0] has a zero sum, Rate divides by it
		}
		if set[p] {
			continue
		}
		set[p] = true
		out = append(out, p)
	}
	sort.Slice(out, func(i, j int) bool { return out[i] > out[j] })
	return out
}

// GenDiv draws divider cases.
func GenDiv(thorough bool) *rapid.Generator[DivCase] {
	return rapid.Custom(func(t *rapid.T) DivCase {
		c := DivCase{Which: rapid.SampledFrom([]string{"fair", "rate"}).Draw(t, "which")}
		c.Prios = GenPrios(t, 8, true)
		maxP := uint64(c.Prios[0])
		var d uint64
		switch rapid.IntRange(0, 4).Draw(t, "dm") {
		case 0, 1:
			d = uint64(rapid.IntRange(0, 64).Draw(t, "d"))
		case 2:
			d = uint64(rapid.IntRange(0, 2000).Draw(t, "d"))
		default:
			d = logUniform64(t, "d", 33)
			if d > 1<<32 {
				d = 1 << 32
			}
		}
		// keep dividend*priority exactly representable
		for d*maxP >= 1<<53 {
			d /= 2
		}
		c.Dividend = uint(d)
		if rapid.IntRange(0, 2).Draw(t, "pre") != 0 {
			c.Pre = map[uint]uint{}
			for _, p := range c.Prios {
				if rapid.Bool().Draw(t, "prel") {
					c.Pre[p] = uint(rapid.IntRange(0, 50).Draw(t, "prev"))
				}
			}
			k := rapid.IntRange(0, 3).Draw(t, "foreign")
			for i := 0; i < k; i++ {
				f := uint(rapid.IntRange(1, 2000).Draw(t, "fk"))
				c.Pre[f+3000000] = uint(rapid.IntRange(0, 50).Draw(t, "fv"))
			}
		}
		c.V1Nil = rapid.Bool().Draw(t, "v1nil")
		return c
	})
}

// DivSeq : several divider calls one after another in one process; a later call often has the
// same dividend, list length and sum of priorities as the one before it but another list (the
// dividers are functions of their arguments alone: what was divided before must not matter).
type DivSeq struct {
	Calls []DivCase `json:"calls"`
}

// CheckDivSeq applies the C14 oracle to every call in turn.
func CheckDivSeq(q DivSeq) error {
	for i, c := range q.Calls {
		if err := CheckC14(c); err != nil {
			return fmt.Errorf("call #%d of the sequence: %w", i, err)
		}
	}
	return nil
}

// GenDivSeq draws 2..5 calls.
func GenDivSeq(thorough bool) *rapid.Generator[DivSeq] {
	return rapid.Custom(func(t *rapid.T) DivSeq {
		base := GenDiv(thorough)
		var q DivSeq
		q.Calls = append(q.Calls, base.Draw(t, "first"))
		for i, n := 0, rapid.IntRange(1, 4).Draw(t, "more"); i < n; i++ {
			prev := q.Calls[len(q.Calls)-1]
			if rapid.IntRange(0, 3).Draw(t, "fresh") == 0 || len(prev.Prios) < 2 {
				q.Calls = append(q.Calls, base.Draw(t, "fresh"))
				continue
			}
			// same divider, dividend, length and sum; one unit moved from one priority to another
			next := prev
			next.Prios = append([]uint(nil), prev.Prios...)
			next.Pre = cloneMap(prev.Pre)
			a := rapid.IntRange(0, len(next.Prios)-1).Draw(t, "from")
			b := rapid.IntRange(0, len(next.Prios)-1).Draw(t, "to")
			k := uint(rapid.IntRange(1, 3).Draw(t, "units"))
			if a != b && next.Prios[a] >= k {
				next.Prios[a] -= k
				next.Prios[b] += k
			}
			sort.Slice(next.Prios, func(i, j int) bool { return next.Prios[i] > next.Prios[j] })
			distinct := true
			for j := 1; j < len(next.Prios); j++ {
				if next.Prios[j] == next.Prios[j-1] {
					distinct = false
				}
			}
			if !distinct || uint64(next.Dividend)*uint64(next.Prios[0]) >= 1<<53 {
				next = base.Draw(t, "fallback")
			}
			if rapid.Bool().Draw(t, "otherdiv") {
				next.Which = prev.Which
			}
			q.Calls = append(q.Calls, next)
		}
		return q
	})
}
