package joinl

import (
	"context"
	"fmt"
	"testing"
	"time"

	"cqosverif/internal/bubble"

	v1join "github.com/akramarenkov/cqos/join"
	"github.com/akramarenkov/cqos/v2/join"
	"github.com/akramarenkov/cqos/v2/join/unite"
	"pgregory.net/rapid"
)

// ElemCase : the generic disciplines instantiated with an element type other than int. With a
// zero-size type only the counts are observable; with the wide type also the order.
type ElemCase struct {
	Kind    string `json:"kind"`
	Elem    string `json:"element_type"` // empty | wide
	J       uint   `json:"join_size"`
	NoCopy  bool   `json:"no_copy"`
	Timeout int64  `json:"timeout_ns"`
	InCap   int    `json:"input_cap"`
	Lens    []int  `json:"lengths"` // join: ignored but for its sum; unite: input slice lengths
	Gap     int64  `json:"gap_ns"`  // pause before every write
}

type wideElem struct {
	id  int
	pad [24]int64
}

// CheckElem runs the case and applies the size/count/order clauses of C03.
func CheckElem(t *testing.T, c ElemCase) error {
	run := func(f func()) bubble.Result { return bubble.Run(t, f) }
	switch c.Elem {
	case "empty":
		return checkElemT(c, run, func(int) struct{} { return struct{}{} }, nil)
	case "iface":
		// interface values, every third of them nil (an element like any other)
		return checkElemT(c, run, func(i int) any {
			if i%3 == 1 {
				return nil
			}
			return i
		}, func(v any) int {
			if v == nil {
				return -1
			}
			return v.(int)
		})
	default:
		return checkElemT(c, run, func(i int) wideElem { return wideElem{id: i} }, func(w wideElem) int { return w.id })
	}
}

func checkElemT[T any](c ElemCase, run func(func()) bubble.Result, mk func(int) T, id func(T) int) error {
	total := 0
	for _, l := range c.Lens {
		total += l
	}
	var outs [][]T
	var newErr error
	closed := false
	res := run(func() {
		var out <-chan []T
		release := func() {}
		in := make(chan T, c.InCap)
		ins := make(chan []T, c.InCap)
		func() {
			defer func() {
				if r := recover(); r != nil {
					newErr = fmt.Errorf("constructor panicked: %v", r)
				}
			}()
			switch c.Kind {
			case KindV2Join:
				d, err := join.New(join.Opts[T]{Input: in, JoinSize: c.J, NoCopy: c.NoCopy, Timeout: time.Duration(c.Timeout)})
				if err != nil {
					newErr = err
					return
				}
				out, release = d.Output(), d.Release
			case KindV2Unite:
				d, err := unite.New(unite.Opts[T]{Input: ins, JoinSize: c.J, NoCopy: c.NoCopy, Timeout: time.Duration(c.Timeout)})
				if err != nil {
					newErr = err
					return
				}
				out, release = d.Output(), d.Release
			default:
				opts := v1join.Opts[T]{Ctx: context.Background(), Input: in, JoinSize: c.J, Timeout: time.Duration(c.Timeout)}
				var released chan struct{}
				if c.NoCopy {
					released = make(chan struct{})
					opts.Released = released
					release = func() { released <- struct{}{} }
				}
				d, err := v1join.New(opts)
				if err != nil {
					newErr = err
					return
				}
				out = d.Output()
			}
		}()
		if newErr != nil {
			return
		}
		go func() {
			next := 0
			for _, l := range c.Lens {
				time.Sleep(time.Duration(c.Gap))
				if c.Kind == KindV2Unite {
					sl := make([]T, l)
					for i := range sl {
						sl[i] = mk(next + i)
					}
					ins <- sl
					next += l
					continue
				}
				for i := 0; i < l; i++ {
					in <- mk(next)
					next++
				}
			}
			close(in)
			close(ins)
		}()
		for sl := range out {
			outs = append(outs, append([]T(nil), sl...))
			if c.NoCopy {
				release()
			}
		}
		closed = true
	})
	if newErr != nil {
		return fmt.Errorf("element type %s: %w", c.Elem, newErr)
	}
	if res.Deadlock != "" || res.Spin || !closed {
		return fmt.Errorf("element type %s: run did not complete: %s", c.Elem, firstLine(res.Deadlock+res.Panic))
	}
	got, next := 0, 0
	for k, o := range outs {
		if len(o) == 0 {
			return fmt.Errorf("element type %s: empty output slice #%d", c.Elem, k)
		}
		if c.Kind != KindV2Unite && uint(len(o)) > c.J {
			return fmt.Errorf("element type %s: output slice #%d has %d elements, JoinSize is %d", c.Elem, k, len(o), c.J)
		}
		got += len(o)
		if id != nil {
			for _, v := range o {
				if got := id(v); got != next && !(got == -1 && next%3 == 1) {
					return fmt.Errorf("element type %s: output slice #%d carries element %d where %d was expected", c.Elem, k, id(v), next)
				}
				next++
			}
		}
	}
	if got != total {
		return fmt.Errorf("element type %s: %d elements delivered, %d written (output lengths %d slices)", c.Elem, got, total, len(outs))
	}
	return nil
}

// GenElem draws small cases.
func GenElem(thorough bool) *rapid.Generator[ElemCase] {
	return rapid.Custom(func(t *rapid.T) ElemCase {
		c := ElemCase{
			Kind:   pick(t, "kind", KindV1Join, KindV2Join, KindV2Unite),
			Elem:   pick(t, "elem", "empty", "empty", "wide", "iface"),
			J:      uint(pick(t, "J", 1, 2, 3, 5, 8, 1025)),
			NoCopy: rapid.Bool().Draw(t, "nocopy"),
			InCap:  pick(t, "cap", 0, 1, 4, 64),
		}
		c.Timeout = pick(t, "timeout", int64(0), 0, 40, 1000)
		c.Gap = pick(t, "gap", int64(0), 0, 7, 300)
		if c.Kind == KindV1Join && c.Timeout > 0 {
			// v1 wants a tick of at least 10 ms
			c.Timeout *= 1000000
			c.Gap *= 1000000
		}
		n := rapid.IntRange(0, 8).Draw(t, "n")
		for i := 0; i < n; i++ {
			c.Lens = append(c.Lens, pick(t, "len", 0, 1, 2, int(c.J)-1, int(c.J), int(c.J)+1))
		}
		for i := range c.Lens {
			if c.Lens[i] < 0 {
				c.Lens[i] = 0
			}
			if c.Lens[i] > 40 {
				c.Lens[i] = 40 // keep the big JoinSize cheap: many short slices, never an oversize one
			}
		}
		return c
	})
}
