package joinl

import (
	"pgregory.net/rapid"
)

// Focus biases the generator towards the scripts a property needs; every focus still
// produces only scripts inside the documented input domain.
type Focus struct {
	Kinds      []string
	NeedTO     bool // timeout > 0
	ReadyOnly  bool // consumer always ready
	ReadyMost  bool // consumer always ready in about two thirds of the scripts
	Stop       bool // v1 stop/cancel plan present
	HoldHeavy  bool // consumers that keep slices
	NoTimeouts bool
}

func pick[T any](t *rapid.T, label string, xs ...T) T { return rapid.SampledFrom(xs).Draw(t, label) }

// Gen draws join/unite scripts.
func Gen(f Focus, thorough bool) *rapid.Generator[Script] {
	return rapid.Custom(func(t *rapid.T) Script {
		var s Script
		kinds := f.Kinds
		if len(kinds) == 0 {
			kinds = []string{KindV1Join, KindV2Join, KindV2Unite}
		}
		s.Kind = rapid.SampledFrom(kinds).Draw(t, "kind")
		js := []uint{1, 2, 3, 4, 5, 8, 1, 2, 3, 4, 5, 8, 33, 1000}
		if thorough {
			js = append(js, 7, 16, 64)
		}
		s.J = rapid.SampledFrom(js).Draw(t, "J")
		s.NoCopy = rapid.Bool().Draw(t, "nocopy")
		s.Inacc = pick(t, "inacc", uint(0), 1, 5, 25, 33, 50, 51, 100)
		d := s.D()
		withTO := f.NeedTO || rapid.IntRange(0, 9).Draw(t, "to") < 7
		if f.NoTimeouts {
			withTO = false
		}
		unit := int64(1000)
		if withTO {
			if s.Kind == KindV1Join {
				s.Timeout = 10_000_000 * d * pick(t, "k", int64(1), 1, 3)
				if d > 1 && rapid.IntRange(0, 3).Draw(t, "odd1") == 0 {
					s.Timeout += rapid.Int64Range(1, d-1).Draw(t, "oddr1")
				}
			} else {
				s.Timeout = d * pick(t, "k", int64(1), 7, 7, 1000)
				if d > 1 && rapid.IntRange(0, 3).Draw(t, "odd") == 0 {
					// not a multiple of the divider: the tick period is floor(Timeout/d)
					s.Timeout += rapid.Int64Range(1, d-1).Draw(t, "oddr")
				}
			}
			unit = s.Timeout
		}
		if !withTO && rapid.IntRange(0, 4).Draw(t, "negto") == 0 {
			s.Timeout = -pick(t, "negtov", int64(1), 1000, 1<<62) // negative = no timeout, as documented
		}
		T := unit
		s.InCap = pick(t, "cap", 0, 0, 1, 2, 3, 6, 40)
		maxN := 20
		if thorough {
			maxN = 40
		}
		n := rapid.IntRange(0, maxN).Draw(t, "n")
		mode := pick(t, "mode", "burst", "mixed", "mixed", "trickle", "single", "pauses")
		hugeOneIn := 160
		if thorough {
			hugeOneIn = 60
		}
		huge := rapid.IntRange(0, hugeOneIn-1).Draw(t, "hugej") == 0
		if huge {
			// JoinSize beyond any internal chunk size, with enough elements to fill it
			s.J = pick(t, "Jhuge", uint(1025), 2048, 3000)
			mode = "burst"
		}
		if huge {
			n = rapid.IntRange(1100, 3300).Draw(t, "nhuge")
			if s.Kind == KindV2Unite {
				n /= 4
			}
		} else if mode == "single" {
			n = rapid.IntRange(1, 2).Draw(t, "n1")
		} else if rapid.IntRange(0, 29).Draw(t, "long") == 0 {
			// many elements, arriving quickly (long pauses would cost thousands of ticks each)
			n = rapid.IntRange(60, 200).Draw(t, "nlong")
			mode = pick(t, "longmode", "burst", "burst", "trickle")
		}
		lenPool := []int{0, 1, 1, 2, 3, int(s.J) - 1, int(s.J), int(s.J) + 1, 2 * int(s.J), 10*int(s.J) + 1}
		if s.J > 100 {
			lenPool = []int{0, 1, 2, 3, 7, 100, int(s.J) - 1, int(s.J), int(s.J) + 1}
		}
		total := 0
		for i := 0; i < n; i++ {
			var g int64
			switch mode {
			case "burst":
				g = 0
			case "trickle":
				g = pick(t, "g", T/10, T/3, T/3, T/2, T-1)
			case "pauses":
				if rapid.IntRange(0, 3).Draw(t, "p") == 0 {
					g = pick(t, "g", T, T+1, T+T/d, T+T/d+1, 3*T)
				}
			case "single":
				g = pick(t, "g", int64(0), T/3)
			default:
				g = pick(t, "g", int64(0), 0, 0, T/10, T/3, T-1, T, T+1, T+T/d, 3*T)
			}
			l := 1
			if s.Kind == KindV2Unite {
				l = rapid.SampledFrom(lenPool).Draw(t, "len")
				if l < 0 {
					l = 0
				}
				if total+l > 4000 {
					l = min(l, 3) // keep the number of elements per script bounded
				}
				total += l
			}
			s.Prod = append(s.Prod, PStep{Gap: g, Len: l})
		}
		if s.Kind == KindV2Unite {
			s.SharedArray = rapid.Bool().Draw(t, "sharedarr")
			if s.SharedArray {
				s.SharedLayout = rapid.IntRange(0, 3).Draw(t, "sharedlayout")
			}
			s.NilEmpty = rapid.Bool().Draw(t, "nilempty")
		}
		s.PreStart = rapid.IntRange(0, 3).Draw(t, "prestart") == 0
		s.CloseGap = pick(t, "cg", int64(0), 0, T/2, T, 3*T)
		if mode == "single" {
			s.CloseGap = pick(t, "cg1", 3*T, 5*T+1)
		}
		ready := f.ReadyOnly || rapid.IntRange(0, 9).Draw(t, "ready") < 4
		if f.ReadyMost {
			ready = rapid.IntRange(0, 2).Draw(t, "readymost") != 0
		}
		if f.HoldHeavy {
			ready = rapid.IntRange(0, 9).Draw(t, "ready2") < 1
		}
		if !ready {
			k := rapid.IntRange(1, 3).Draw(t, "nc")
			for i := 0; i < k; i++ {
				hold := pick(t, "ch", int64(0), T/2, T, T+T/d+1, 3*T)
				if s.NoCopy && rapid.IntRange(0, 7).Draw(t, "longhold") == 0 {
					// a consumer that sits on a no-copy slice for seconds or an hour: the discipline is
					// blocked waiting for the release, so the fake clock simply jumps
					hold = pick(t, "chlong", int64(5000000001), 61000000000, 3600000000000)
				}
				s.Cons = append(s.Cons, CStep{
					Delay:    pick(t, "cd", int64(0), 0, T/3, T, 2*T+1),
					Hold:     hold,
					Scribble: rapid.Bool().Draw(t, "scr"),
					Append:   pick(t, "app", 0, 0, 1, 2),
				})
			}
		} else if !f.ReadyOnly && rapid.Bool().Draw(t, "scr0") {
			s.Cons = []CStep{{Scribble: true, Append: pick(t, "app0", 0, 1, 3)}}
		}
		if f.Stop && s.Kind == KindV1Join {
			sp := &StopPlan{Mode: pick(t, "smode", "stop", "stop", "cancel")}
			switch trig := rapid.IntRange(0, 3).Draw(t, "strig"); {
			case trig == 3:
				// in the middle of a burst of writes
				sp.AfterRecv = -1
				sp.AfterWrite = rapid.IntRange(1, 8).Draw(t, "afterwrite")
				s.NoClose = rapid.Bool().Draw(t, "noclose")
			case trig != 0:
				sp.AfterRecv = rapid.IntRange(0, 3).Draw(t, "after")
			default:
				sp.AfterRecv = -1
				sp.AtTime = pick(t, "at", int64(0), 1, T/2, T, T+1, 3*T, 7*T)
				s.NoClose = rapid.Bool().Draw(t, "noclose")
			}
			s.Stop = sp
			s.SecondInstance = rapid.IntRange(0, 2).Draw(t, "second") == 0
		}
		return s
	})
}

// Classes labels a script/trace for the evidence histogram.
func Classes(s Script, tr Trace) []string {
	cl := []string{s.Kind}
	if s.NoCopy {
		cl = append(cl, "no-copy")
	} else {
		cl = append(cl, "copy")
	}
	if s.Timeout > 0 {
		cl = append(cl, "timeout")
		if ShortSlices(s, tr) > 0 {
			cl = append(cl, "timeout-cut-slice")
		}
	} else {
		cl = append(cl, "no-timeout")
	}
	if s.InCap == 0 {
		cl = append(cl, "unbuffered")
	}
	if s.AlwaysReady() {
		cl = append(cl, "consumer-ready")
	} else {
		cl = append(cl, "consumer-slow")
	}
	if s.Stop != nil {
		cl = append(cl, "stop-plan:"+s.Stop.Mode)
	}
	return cl
}
