package joinl

import (
	"testing"

	"cqosverif/internal/evid"

	"pgregory.net/rapid"
)

func summary(s Script, tr Trace) any {
	type o struct {
		At  int64 `json:"at_ns"`
		Len int   `json:"len"`
	}
	var outs []o
	for _, x := range tr.Outs {
		outs = append(outs, o{x.At, len(x.Snap)})
	}
	return map[string]any{"outputs": outs, "closed_at_ns": tr.ClosedAt, "stop_returned_at_ns": tr.StopReturnedAt}
}

type spec struct {
	id, rule string
	focus    Focus
	leak     bool
	check    func(Script, Trace) error
	nontriv  func(Script, Trace) bool
	skip     func(Script, Trace) string
	pre      func(thorough bool, each func(s Script, label string) bool)
	repeat   bool // thorough: execute every script 3 times (select-case choice at one instant is random)
}

func run(t *testing.T, sp spec) {
	evid.Run(t, evid.Prop[Script]{
		ID:   sp.id,
		Rule: sp.rule,
		Gen:  func(th bool) *rapid.Generator[Script] { return Gen(sp.focus, th) },
		Pre:  sp.pre,
		Run: func(s Script) evid.Outcome {
			reps := 1
			if sp.repeat && evid.Thorough() {
				reps = 3
			}
			var o evid.Outcome
			for i := 0; i < reps; i++ {
				tr := Execute(t, s, sp.leak)
				o = evid.Outcome{Classes: Classes(s, tr), Summary: summary(s, tr),
					Counters: map[string]int{"output_slices": len(tr.Outs), "timeout_cut_slices": ShortSlices(s, tr), "elements_written": len(tr.WStart)}}
				if tr.HarnessPanic != "" {
					o.Skip = "harness panic (a defect of the harness, not a verdict): " + firstLine(tr.HarnessPanic)
					return o
				}
				if sp.id == "C19" && tr.RetriedAfterSpin {
					o.Skip = "first attempt of the case was abandoned; its goroutines would be counted as leaks"
					return o
				}
				if tr.Spin && sp.id != "C03" && sp.id != "C10" && sp.id != "C16" {
					o.Skip = "a goroutine spins and the case never finishes (decided by C03/C10/C16)"
					return o
				}
				if sp.skip != nil {
					if r := sp.skip(s, tr); r != "" {
						o.Skip = r
						return o
					}
				}
				o.NonTrivial = sp.nontriv(s, tr)
				o.Err = sp.check(s, tr)
				o.NoShrink = tr.Spin
				if o.Err != nil {
					return o
				}
			}
			return o
		},
	})
}

func inLenClasses(s Script) (zero, one, less, eq, more bool) {
	for _, p := range s.Prod {
		switch {
		case p.Len == 0:
			zero = true
		case p.Len == 1:
			one = true
		}
		switch {
		case p.Len > 0 && uint(p.Len) < s.J:
			less = true
		case uint(p.Len) == s.J:
			eq = true
		case uint(p.Len) > s.J:
			more = true
		}
	}
	return
}

func wedgedNotMine(s Script, tr Trace) string {
	if tr.Deadlock != "" {
		return "run did not complete (decided by C03/C16)"
	}
	return ""
}

func TestC03(t *testing.T) {
	run(t, spec{
		id:    "C03",
		rule:  "rapid-generated join/unite scripts (v1 join, v2 join, v2 unite; JoinSize, copy/no-copy, timeout from d ns to none, inaccuracy 1..100, input capacity 0..6, producer gaps around the timeout, producer started before or after creation, unite producers allocating every slice, cutting them out of one array in several layouts, or sending overlapping windows of one constant block, consumer delays/holds/scribbling/appending) on a fake clock; oracle: element-by-element equality of the concatenated outputs with the written stream + size rules; non-trivial = at least one slice was cut by a timeout, or (unite) an empty or oversize input slice occurred; distinct = distinct script JSON",
		check: CheckC03,
		nontriv: func(s Script, tr Trace) bool {
			z, _, _, _, m := inLenClasses(s)
			return ShortSlices(s, tr) > 0 || (s.Kind == KindV2Unite && (z || m))
		},
	})
}

// TestC03Elem : the size, count and order clauses of C03 for instantiations with a zero-size and a
// wide element type.
func TestC03Elem(t *testing.T) {
	evid.Run(t, evid.Prop[ElemCase]{
		ID:   "C03",
		Rule: "v1 join, v2 join and v2 unite instantiated with struct{} (only counts observable) and with a 200-byte struct, JoinSize 1..8 and 1025, copy/no-copy, with and without timeout, small scripts of writes; oracle: no empty output, join slices <= JoinSize, element count preserved, (wide) order preserved, run completes; non-trivial = at least 2 input steps and something written; distinct = distinct case JSON",
		Gen:  GenElem,
		Run: func(c ElemCase) evid.Outcome {
			n := 0
			for _, l := range c.Lens {
				n += l
			}
			return evid.Outcome{Err: CheckElem(t, c), NonTrivial: len(c.Lens) >= 2 && n > 0, Classes: []string{c.Kind, "elem:" + c.Elem}, Summary: "see script"}
		},
	})
}

func TestC08(t *testing.T) {
	run(t, spec{
		id:     "C08",
		rule:   "join/unite scripts biased to consumers that keep slices (holds up to 3x Timeout with the producer blocked and timeouts firing, every slice kept referenced to the end of the run, scribbling in copy mode) and v1 Stop/cancel between delivery and release; oracle: snapshot at delivery vs contents at release / end of run / after Stop, pairwise disjoint memory in copy mode, nothing produced during a no-copy hold; non-trivial = a hold >= Timeout with pending producer data, or >= 3 retained slices, or a Stop during a hold; distinct = distinct script JSON",
		focus:  Focus{HoldHeavy: true, Stop: true},
		repeat: true,
		check:  CheckC08,
		nontriv: func(s Script, tr Trace) bool {
			long := false
			for _, c := range s.Cons {
				if c.Hold > 0 && c.Hold >= s.Timeout {
					long = true
				}
			}
			return (long && len(tr.Outs) >= 2) || len(tr.Outs) >= 3 || (s.Stop != nil && s.Stop.AfterRecv >= 0 && tr.StopIssuedAt >= 0)
		},
	})
}

func TestC09(t *testing.T) {
	run(t, spec{
		id:    "C09",
		rule:  "join/unite scripts; without a timeout the outputs are compared with the greedy reference batching computed from the script, with a timeout every non-maximal non-final slice must come at least Timeout after the write-start of the last element of the previous slice; non-trivial = (unite) input lengths both below and at/above JoinSize occurred, or at least one non-maximal non-final slice was observed; distinct = distinct script JSON",
		check: CheckC09,
		skip:  wedgedNotMine,
		nontriv: func(s Script, tr Trace) bool {
			_, _, l, e, m := inLenClasses(s)
			return ShortSlices(s, tr) > 0 || (s.Kind == KindV2Unite && l && (e || m))
		},
	})
}

func TestC10(t *testing.T) {
	run(t, spec{
		id:    "C10",
		rule:  "join/unite scripts with Timeout > 0 (single element then silence, trickle slower than JoinSize per Timeout, bursts, inaccuracy 1..100), two thirds with an always-ready consumer, the rest with a consumer that delays and holds; oracle in integers: (receive - accept) * d <= Timeout * (d+1) for every element of a slice for which the consumer was ready (always, or already blocked in the receive before the first element of the slice was offered); non-trivial = at least one element waited > 0 ns and was flushed in a non-maximal slice; distinct = distinct script JSON",
		focus: Focus{NeedTO: true, ReadyMost: true},
		check: CheckC10,
		nontriv: func(s Script, tr Trace) bool {
			return MaxWait(tr) > 0 && ShortSlices(s, tr) > 0
		},
	})
}

func TestC11(t *testing.T) {
	run(t, spec{
		id:    "C11",
		rule:  "unite scripts with input slice lengths from {0,1,2,3,J-1,J,J+1,2J}; oracle: output boundaries are input boundaries, order preserved, every input slice >= JoinSize is an output of its own; non-trivial = at least three of the length classes {0, <J, =J, >J} occurred and (when a timeout is set) a timeout cut a slice; distinct = distinct script JSON",
		focus: Focus{Kinds: []string{KindV2Unite}},
		check: CheckC11,
		skip:  wedgedNotMine,
		nontriv: func(s Script, tr Trace) bool {
			z, _, l, e, m := inLenClasses(s)
			c := 0
			for _, b := range []bool{z, l, e, m} {
				if b {
					c++
				}
			}
			return c >= 3 && (s.Timeout == 0 || ShortSlices(s, tr) > 0)
		},
	})
}

func TestC16(t *testing.T) {
	run(t, spec{
		id:     "C16",
		rule:   "v1 join scripts with Stop() or context cancel injected after delivery #k (while it is held, before release) at a virtual time (before any data, mid-accumulation, with the output buffer full, producer blocked, input never closed) or right after the producer's write #k in the middle of a burst; oracle: Stop returns, Output() is closed at that moment (non-blocking drain), delivered elements are an in-order duplicate-free subsequence; non-trivial = the stop was issued while a no-copy slice was unreleased, or while the consumer was not reading, or before the first delivery; distinct = distinct script JSON",
		focus:  Focus{Kinds: []string{KindV1Join}, Stop: true},
		repeat: true,
		pre:    func(th bool, each func(Script, string) bool) { enumerateStops(t, th, each) },
		check:  CheckC16,
		nontriv: func(s Script, tr Trace) bool {
			if s.Stop == nil || tr.StopIssuedAt < 0 {
				return false
			}
			return (s.NoCopy && s.Stop.AfterRecv >= 0) || !s.AlwaysReady() || len(tr.Outs) == 0
		},
	})
}

func TestC19(t *testing.T) {
	run(t, spec{
		id:    "C19",
		rule:  "join lab: goroutine dump (goroutines created by the module) at the first quiescent point after Output() closed / Stop returned and again at the end of the run, for normal termination and v1 Stop/cancel at arbitrary points; non-trivial = terminated by Stop/cancel, or with a timeout ticker running",
		focus: Focus{Stop: true},
		leak:  true,
		check: CheckC19,
		skip: func(s Script, tr Trace) string {
			if len(tr.Leaked) > 0 {
				return ""
			}
			return wedgedNotMine(s, tr)
		},
		nontriv: func(s Script, tr Trace) bool {
			return tr.StopIssuedAt >= 0 || s.Timeout > 0
		},
	})
}

func TestC20(t *testing.T) {
	run(t, spec{
		id:    "C20",
		rule:  "join lab under -race: producer, consumer (reading, scribbling, releasing), stopper and discipline goroutines; non-trivial = at least 2 slices delivered",
		focus: Focus{Stop: true, HoldHeavy: true},
		check: func(Script, Trace) error { return nil },
		nontriv: func(s Script, tr Trace) bool {
			return len(tr.Outs) >= 2
		},
	})
}

// enumerateStops : for a few fixed v1 join scripts, Stop and cancel at every event time of
// the fault-free run (and 1 ns before and after it) and while holding every delivery.
func enumerateStops(t *testing.T, thorough bool, each func(s Script, label string) bool) {
	const T = int64(40_000_000) // 10ms * d for the default inaccuracy (d = 4)
	gaps := []int64{0, 0, T / 3, 0, T + 1, 0, 0, T / 2, 0, 3 * T, 0}
	var bases []Script
	for _, nocopy := range []bool{false, true} {
		for _, to := range []int64{0, T} {
			for _, cp := range []int{0, 2} {
				for _, cons := range [][]CStep{nil, {{Delay: T / 3, Hold: T / 2}, {Hold: T + 1}}} {
					b := Script{Kind: KindV1Join, J: 3, NoCopy: nocopy, Timeout: to, InCap: cp, CloseGap: T / 2, Cons: cons}
					for _, g := range gaps {
						b.Prod = append(b.Prod, PStep{Gap: g, Len: 1})
					}
					bases = append(bases, b)
				}
			}
		}
	}
	for _, b := range bases {
		tr := Execute(t, b, false)
		times := map[int64]bool{0: true}
		add := func(x int64) {
			for _, d := range []int64{-1, 0, 1} {
				if x+d >= 0 {
					times[x+d] = true
				}
			}
		}
		for _, x := range tr.WStart {
			add(x)
		}
		for _, x := range tr.WDone {
			add(x)
		}
		for _, o := range tr.Outs {
			add(o.At)
		}
		add(tr.CloseAt)
		for _, mode := range []string{"stop", "cancel"} {
			for k := 0; k <= len(tr.Outs); k++ {
				s := b
				s.Stop = &StopPlan{Mode: mode, AfterRecv: k}
				if !each(s, "stop-enumeration") {
					return
				}
			}
			for tm := range times {
				for _, noclose := range []bool{false, true} {
					s := b
					s.NoClose = noclose
					s.Stop = &StopPlan{Mode: mode, AfterRecv: -1, AtTime: tm}
					if !each(s, "stop-enumeration") {
						return
					}
				}
			}
		}
	}
}
