package joinl

import (
	"fmt"
)

func firstLine(s string) string {
	for i := 0; i < len(s); i++ {
		if s[i] == '\n' {
			return s[:i]
		}
	}
	return s
}

// planned input: total number of elements and the lengths of the input slices
func (s Script) planned() (n int, lens []int) {
	for _, p := range s.Prod {
		l := 1
		if s.Kind == KindV2Unite {
			l = p.Len
		}
		lens = append(lens, l)
		n += l
	}
	return
}

// Completed tells whether the run ended normally (input closed, output read to its end).
func (tr Trace) Completed(s Script) bool {
	return tr.NewErr == "" && tr.Deadlock == "" && s.Stop == nil && tr.ClosedAt >= 0
}

// CheckC03 : concatenation equals the input, no empty slice, size rules.
func CheckC03(s Script, tr Trace) error {
	if tr.NewErr != "" {
		// every generated configuration is inside the documented domain
		return fmt.Errorf("constructor rejected a documented configuration: %s", tr.NewErr)
	}
	if tr.Deadlock != "" && tr.ClosedAt < 0 && s.Stop == nil {
		return fmt.Errorf("run did not complete: output never closed after the input was closed (%s)", firstLine(tr.Deadlock))
	}
	if s.Stop != nil || tr.ClosedAt < 0 {
		return nil // stopped runs may legitimately drop elements; decided by C16
	}
	n, lens := s.planned()
	next := 0
	for k, o := range tr.Outs {
		if len(o.Snap) == 0 {
			return fmt.Errorf("output slice #%d is empty", k)
		}
		for _, v := range o.Snap {
			if v != next {
				return fmt.Errorf("output slice #%d = %v: expected element %d next (loss, duplication or reordering)", k, o.Snap, next)
			}
			next++
		}
		if s.Kind != KindV2Unite {
			if uint(len(o.Snap)) > s.J {
				return fmt.Errorf("join slice #%d has %d elements, JoinSize is %d", k, len(o.Snap), s.J)
			}
		} else if uint(len(o.Snap)) > s.J {
			// must be exactly one input slice of length >= J
			if !isOneInputSlice(lens, o.Snap[0], len(o.Snap)) {
				return fmt.Errorf("unite slice #%d has %d elements (> JoinSize %d) and is not exactly one input slice", k, len(o.Snap), s.J)
			}
		}
	}
	if next != n {
		return fmt.Errorf("%d elements delivered, %d written (tail lost)", next, n)
	}
	return nil
}

func isOneInputSlice(lens []int, first, length int) bool {
	pos := 0
	for _, l := range lens {
		if pos == first && l == length {
			return true
		}
		pos += l
	}
	return false
}

// reference greedy batching without a timeout
func (s Script) greedy() [][2]int { // (first, len)
	var out [][2]int
	j := int(s.J)
	if s.Kind != KindV2Unite {
		n, _ := s.planned()
		for f := 0; f < n; f += j {
			l := j
			if n-f < j {
				l = n - f
			}
			out = append(out, [2]int{f, l})
		}
		return out
	}
	_, lens := s.planned()
	pos, bufStart, buf := 0, 0, 0
	flush := func() {
		if buf > 0 {
			out = append(out, [2]int{bufStart, buf})
		}
		buf = 0
	}
	for _, l := range lens {
		if l >= j {
			flush()
			out = append(out, [2]int{pos, l})
			pos += l
			bufStart = pos
			continue
		}
		if l+buf > j {
			flush()
		}
		if buf == 0 {
			bufStart = pos
		}
		buf += l
		pos += l
		if buf >= j {
			flush()
			bufStart = pos
		}
	}
	flush()
	return out
}

// nextInputLen returns the length of the first non-empty input slice starting at element index pos.
func nextInputLen(lens []int, pos int) int {
	p := 0
	for _, l := range lens {
		if p == pos && l > 0 {
			return l
		}
		p += l
	}
	return 0
}

// maximal tells whether output k could not have taken more.
func (s Script) maximal(lens []int, first, length int) bool {
	if uint(length) >= s.J {
		return true
	}
	if s.Kind != KindV2Unite {
		return false
	}
	nl := nextInputLen(lens, first+length)
	return nl > 0 && uint(length+nl) > s.J
}

// ShortSlices counts the non-maximal, non-final output slices (cut by a timeout).
func ShortSlices(s Script, tr Trace) int {
	_, lens := s.planned()
	c := 0
	for k, o := range tr.Outs {
		if k == len(tr.Outs)-1 || len(o.Snap) == 0 {
			continue
		}
		if !s.maximal(lens, o.Snap[0], len(o.Snap)) {
			c++
		}
	}
	return c
}

// CheckC09 : short slices only by timeout or end of input.
func CheckC09(s Script, tr Trace) error {
	if !tr.Completed(s) {
		return nil
	}
	_, lens := s.planned()
	if s.Timeout <= 0 {
		ref := s.greedy()
		if len(ref) != len(tr.Outs) {
			return fmt.Errorf("no timeout: %d output slices, the greedy batching has %d (got lengths %v, want %v)", len(tr.Outs), len(ref), outLens(tr), refLens(ref))
		}
		for k, o := range tr.Outs {
			if len(o.Snap) != ref[k][1] || (len(o.Snap) > 0 && o.Snap[0] != ref[k][0]) {
				return fmt.Errorf("no timeout: output slice #%d has %d elements, the greedy batching has %d (got lengths %v, want %v)", k, len(o.Snap), ref[k][1], outLens(tr), refLens(ref))
			}
		}
		return nil
	}
	for k, o := range tr.Outs {
		if len(o.Snap) == 0 {
			continue
		}
		if k == len(tr.Outs)-1 && o.At >= tr.CloseAt {
			continue // the final slice, flushed by the closing of the input
		}
		if s.maximal(lens, o.Snap[0], len(o.Snap)) {
			continue
		}
		if k > 0 && len(tr.Outs[k-1].Snap) == 0 {
			continue // belongs to C03
		}
		// Lower bound of the moment slice k-1 was written to the output (the timer restarts
		// after that): not before its last element was read from the input, and not before
		// the output channel (capacity c) had room, i.e. not before slice k-1-c was received.
		base := int64(0)
		why := "creation"
		if k > 0 {
			prev := tr.Outs[k-1].Snap
			last := prev[len(prev)-1]
			if last < 0 || last >= len(tr.WStart) {
				return nil // contents broken: belongs to C03
			}
			base = tr.WStart[last]
			why = fmt.Sprintf("the write of the last element of slice #%d started at %dns", k-1, base)
			c := 1
			if s.Kind != KindV1Join {
				c = 1 + s.InCap
			}
			if j := k - 1 - c; j >= 0 && tr.Outs[j].At > base {
				base = tr.Outs[j].At
				why = fmt.Sprintf("slice #%d could enter the output channel (capacity %d) only after slice #%d was received at %dns", k-1, c, j, base)
			}
		}
		if o.At < base+s.Timeout {
			return fmt.Errorf("slice #%d (%d elements, not maximal, not final) was delivered at %dns, earlier than Timeout=%dns after the previous slice was delivered (%s)", k, len(o.Snap), o.At, s.Timeout, why)
		}
	}
	return nil
}

func outLens(tr Trace) []int {
	var l []int
	for _, o := range tr.Outs {
		l = append(l, len(o.Snap))
	}
	return l
}

func refLens(r [][2]int) []int {
	var l []int
	for _, x := range r {
		l = append(l, x[1])
	}
	return l
}

// CheckC10 : with an always-ready consumer every element leaves within Timeout*(1+1/d).
func CheckC10(s Script, tr Trace) error {
	if s.Timeout <= 0 || tr.NewErr != "" || s.Stop != nil {
		return nil
	}
	d := s.D()
	seen := 0
	ready := s.AlwaysReady()
	for k, o := range tr.Outs {
		// The bound applies to a slice when the consumer was ready for all of it: always, or - for
		// a consumer that delays and holds - when it was already blocked in the receive (everything
		// earlier taken and released) before the first element of the slice was offered. From then on
		// the discipline is never blocked, and the timeout has last been restarted before the element
		// was accepted.
		applies := ready
		if !ready && o.RecvEnter >= 0 {
			applies = true
			for _, e := range o.Snap {
				if e < 0 || e >= len(tr.WStart) || tr.WStart[e] < o.RecvEnter {
					applies = false
				}
			}
		}
		if !applies {
			seen += len(o.Snap)
			continue
		}
		for _, e := range o.Snap {
			if e < 0 || e >= len(tr.WDone) {
				return nil // belongs to C03
			}
			seen++
			wait := o.At - tr.WDone[e]
			if wait*d > s.Timeout*(d+1) {
				return fmt.Errorf("element %d accepted at %dns left in slice #%d at %dns: waited %dns > Timeout*(1+1/%d) = %dns (Timeout=%dns)", e, tr.WDone[e], k, o.At, wait, d, s.Timeout+s.Timeout/d, s.Timeout)
			}
		}
	}
	if ready && tr.Deadlock != "" && (seen < len(tr.WDone) || tr.Spin) {
		// an element that was accepted and never came out while the consumer was ready
		return fmt.Errorf("%d of %d accepted elements were never flushed although the consumer was ready (%s)", len(tr.WDone)-seen, len(tr.WDone), firstLine(tr.Deadlock))
	}
	return nil
}

// MaxWait returns the longest time an element stayed inside (for the non-trivial rule).
func MaxWait(tr Trace) int64 {
	m := int64(0)
	for _, o := range tr.Outs {
		for _, e := range o.Snap {
			if e >= 0 && e < len(tr.WDone) {
				if w := o.At - tr.WDone[e]; w > m {
					m = w
				}
			}
		}
	}
	return m
}

// CheckC11 : unite never splits an input slice.
func CheckC11(s Script, tr Trace) error {
	if s.Kind != KindV2Unite || !tr.Completed(s) {
		return nil
	}
	_, lens := s.planned()
	bound := map[int]bool{0: true}
	pos := 0
	for _, l := range lens {
		pos += l
		bound[pos] = true
	}
	next := 0
	for k, o := range tr.Outs {
		if len(o.Snap) == 0 {
			return fmt.Errorf("empty output slice #%d (empty inputs must produce nothing)", k)
		}
		for _, v := range o.Snap {
			if v != next {
				return fmt.Errorf("output slice #%d = %v: input slices do not appear contiguously in order (expected element %d)", k, o.Snap, next)
			}
			next++
		}
		if !bound[next] {
			return fmt.Errorf("output slice #%d ends after element %d, in the middle of an input slice (input lengths %v, output lengths %v)", k, next-1, lens, outLens(tr))
		}
	}
	// an input slice of at least J elements is an output of its own
	pos = 0
	for i, l := range lens {
		if uint(l) >= s.J {
			found := false
			for _, o := range tr.Outs {
				if len(o.Snap) > 0 && o.Snap[0] == pos && len(o.Snap) == l {
					found = true
				}
			}
			if !found {
				return fmt.Errorf("input slice #%d of %d elements (>= JoinSize %d) was not delivered as an output slice of its own (output lengths %v)", i, l, s.J, outLens(tr))
			}
		}
		pos += l
	}
	if next != pos {
		return fmt.Errorf("%d elements delivered, %d written", next, pos)
	}
	return nil
}

// CheckC08 : slice ownership.
func CheckC08(s Script, tr Trace) error {
	if tr.NewErr != "" {
		return nil
	}
	// what the consumer scribbled into a slice it owns must never show up in a later output
	// (order, loss and duplication of genuine elements are C03's business)
	for k, o := range tr.Outs {
		for _, v := range o.Snap {
			if v <= -1000000 && v > -3000000 {
				return fmt.Errorf("slice #%d was delivered as %v: it contains what the consumer wrote into an earlier slice it owned", k, o.Snap)
			}
		}
	}
	if !s.NoCopy {
		for k, o := range tr.Outs {
			if o.Scribble {
				continue
			}
			if !equalInts(o.Live, o.Snap) {
				return fmt.Errorf("copy mode: retained slice #%d was %v at delivery and is %v at the end of the run", k, o.Snap, o.Live)
			}
		}
		for a := range tr.Outs {
			for b := a + 1; b < len(tr.Outs); b++ {
				x, y := tr.Outs[a], tr.Outs[b]
				if x.CapBytes == 0 || y.CapBytes == 0 {
					continue
				}
				if x.Ptr < y.Ptr+y.CapBytes && y.Ptr < x.Ptr+x.CapBytes {
					return fmt.Errorf("copy mode: output slices #%d and #%d share memory", a, b)
				}
			}
		}
	} else {
		for k, o := range tr.Outs {
			if o.AtRel != nil && !equalInts(o.AtRel, o.Snap) {
				return fmt.Errorf("no-copy mode: slice #%d was %v at delivery and %v when the consumer released it %dns later", k, o.Snap, o.AtRel, o.HoldNs)
			}
		}
		if tr.ExtraDuringHold > 0 {
			return fmt.Errorf("no-copy mode: %d further slice(s) were produced before the held slice was released", tr.ExtraDuringHold)
		}
	}
	if tr.ChangedAfterStop != "" {
		return fmt.Errorf("v1: %s", tr.ChangedAfterStop)
	}
	return nil
}

// CheckC16 (join part): Stop/cancel completes, output closed when Stop returns, delivered is a subsequence.
func CheckC16(s Script, tr Trace) error {
	if s.Kind != KindV1Join || s.Stop == nil || tr.NewErr != "" {
		return nil
	}
	if tr.Deadlock != "" && tr.StopReturnedAt < 0 {
		return fmt.Errorf("Stop()/cancel did not complete: %s", firstLine(tr.Deadlock))
	}
	if tr.StopIssuedAt >= 0 && tr.StopReturnedAt < 0 {
		return fmt.Errorf("Stop() issued at %dns never returned", tr.StopIssuedAt)
	}
	if tr.NotClosedAtStop {
		return fmt.Errorf("Output() was not closed when Stop() returned (a receive would have blocked)")
	}
	if s.Stop.Mode == "cancel" && tr.ClosedBlocking && tr.StopIssuedAt >= 0 && tr.ClosedAt > max(tr.StopIssuedAt, tr.RecvEnterAt) {
		return fmt.Errorf("the context was cancelled at %dns, the consumer was receiving from %dns on, but Output() closed only at %dns (when Stop() was called)", tr.StopIssuedAt, tr.RecvEnterAt, tr.ClosedAt)
	}
	if tr.StopReturnedAt >= 0 && tr.ClosedBlocking && tr.ClosedAt > tr.StopReturnedAt {
		return fmt.Errorf("Output() closed at %dns, after Stop() had returned at %dns", tr.ClosedAt, tr.StopReturnedAt)
	}
	last := -1
	n, _ := s.planned()
	for k, o := range tr.Outs {
		for _, v := range o.Snap {
			if v <= last || v >= n {
				return fmt.Errorf("delivered slice #%d = %v is not part of an in-order duplicate-free subsequence of the written elements (previous element %d)", k, o.Snap, last)
			}
			last = v
		}
	}
	return nil
}

// CheckC19 : no goroutine of the discipline after termination.
func CheckC19(s Script, tr Trace) error {
	if tr.NewErr != "" {
		return nil
	}
	if tr.ClosedAt < 0 && tr.StopReturnedAt < 0 {
		return nil
	}
	if len(tr.Leaked) > 0 {
		return fmt.Errorf("goroutines started by the %s discipline remain after termination: %v", s.Kind, tr.Leaked)
	}
	return nil
}
