// Package joinl is the lab of the join (v1, v2) and unite (v2) disciplines: generated
// producer / consumer / stop scripts are executed against the real discipline on a fake
// clock; every delivered slice is snapshotted, time-stamped and kept, so integrity,
// batching, timing and ownership are compared exactly.
package joinl

import (
	"context"
	"fmt"
	"sync"
	"testing"
	"time"
	"unsafe"

	"cqosverif/internal/bubble"

	v1join "github.com/akramarenkov/cqos/join"
	"github.com/akramarenkov/cqos/v2/join"
	"github.com/akramarenkov/cqos/v2/join/unite"
)

const (
	KindV1Join  = "v1join"
	KindV2Join  = "v2join"
	KindV2Unite = "v2unite"
)

// PStep is one producer write: pause, then one element (join) or a slice of Len elements (unite).
type PStep struct {
	Gap int64 `json:"gap_ns"`
	Len int   `json:"len"`
}

// CStep is the behaviour of the consumer around one receive.
type CStep struct {
	Delay    int64 `json:"delay_ns"`         // pause before the receive
	Hold     int64 `json:"hold_ns"`          // time the slice is kept before release (no-copy) / before the next step
	Scribble bool  `json:"scribble"`         // copy mode: overwrite the received slice with garbage after the hold
	Append   int   `json:"append,omitempty"` // copy mode: append that many garbage elements to the received slice after the hold
}

// StopPlan (v1 only): Stop() or context cancellation injected into the run.
type StopPlan struct {
	Mode      string `json:"mode"`       // stop | cancel
	AfterRecv int    `json:"after_recv"` // >=0: issued by the consumer while it holds delivery #k (before its release)
	AtTime    int64  `json:"at_time_ns"` // used when AfterRecv < 0: issued by a separate goroutine at this virtual time
	// AfterWrite > 0 (with AfterRecv < 0): issued by a separate goroutine as soon as the producer's
	// write #AfterWrite has completed, while the producer carries on writing (a stop in the middle
	// of a burst; the exact interleaving with the following writes is up to the scheduler)
	AfterWrite int `json:"after_write,omitempty"`
}

// Script is one run.
type Script struct {
	Kind     string    `json:"kind"`
	J        uint      `json:"join_size"`
	NoCopy   bool      `json:"no_copy"`
	Timeout  int64     `json:"timeout_ns"`
	Inacc    uint      `json:"timeout_inaccuracy"` // 0 = library default (25)
	InCap    int       `json:"input_cap"`
	Prod     []PStep   `json:"producer"`
	CloseGap int64     `json:"close_gap_ns"`
	NoClose  bool      `json:"never_close_input"` // only with a StopPlan
	Cons     []CStep   `json:"consumer"`          // cycled; empty = always ready, immediate release
	Stop     *StopPlan `json:"stop,omitempty"`
	// unite: the producer cuts its input slices out of one backing array (as a producer that
	// parses one buffer would) instead of allocating each slice separately
	SharedArray bool `json:"producer_shares_one_array"`
	// SharedLayout: how the input slices are laid out in that array: 0 in the order they are sent,
	// 1 neighbours swapped pairwise, 2 rotated by one (a producer filling a ring or sending out of order),
	// 3 overlapping windows of one constant block that the producer only reads (the same memory is
	// sent again and again; the observed values are normalised to stream positions after the run)
	SharedLayout int `json:"shared_array_layout"`
	// unite: empty input slices are sent as nil instead of as zero-length slices
	NilEmpty bool `json:"empty_slices_are_nil"`
	// PreStart: the producer is started (and has filled the input or is blocked in its first
	// write) before the discipline is created
	PreStart bool `json:"producer_started_before_creation,omitempty"`
	// SecondInstance (v1 stop plans): after Stop has returned a second discipline of the same kind
	// and element type is run to its end before the kept slices are compared
	SecondInstance bool `json:"second_instance_after_stop,omitempty"`
}

// Out is one delivered slice as observed.
type Out struct {
	At       int64
	Snap     []int // contents at delivery
	AtRel    []int // contents when the consumer released it (after the hold, before scribbling)
	Ptr      uintptr
	CapBytes uintptr
	Live     []int // the delivered slice itself (kept referenced to the end)
	Scribble bool
	// RecvEnter: when the consumer entered the receive that returned this slice (-1: taken by a
	// non-blocking drain)
	RecvEnter int64
	HoldNs    int64
	Released bool // no-copy: the consumer has signalled release (the buffer is the discipline's again)
}

// Trace of a run.
type Trace struct {
	HarnessPanic     string // a panic of the harness itself (never blamed on the library)
	RetriedAfterSpin bool
	Spin             bool // the case exceeded its real-time budget twice (a goroutine spins); only Deadlock is set then
	Outs             []Out
	WStart, WDone    []int64 // per element (unite: per element of the slice, same value for all of a slice)
	SliceOf          []int   // unite: index of the input slice an element belongs to
	InLens           []int   // lengths of the input slices actually written (unite) / 1 per element (join)
	CloseAt          int64
	ClosedAt         int64 // consumer saw Output() closed; -1 never
	ClosedBlocking   bool  // ... through a receive that was already blocked before Stop() returned
	RecvEnterAt      int64 // when the consumer entered its last blocking receive
	NewErr           string
	Deadlock         string
	Leaked           []string

	ExtraDuringHold  int // slices available on Output() while a no-copy slice was held
	StopIssuedAt     int64
	StopReturnedAt   int64 // -1: not returned
	NotClosedAtStop  bool  // Output() would have blocked right after Stop() returned
	AfterStopOuts    int   // slices drained after Stop returned
	ChangedAfterStop string
	TimeoutFired     int
}

func (s Script) D() int64 {
	in := s.Inacc
	if in == 0 {
		in = 25
	}
	return int64(100 / in)
}

func (s Script) AlwaysReady() bool {
	for _, c := range s.Cons {
		if c.Delay != 0 || c.Hold != 0 {
			return false
		}
	}
	return true
}

type sut struct {
	out     <-chan []int        // as returned by the first call of the accessor
	outFn   func() <-chan []int // the accessor itself: the consumer asks again before every receive
	release func(done <-chan struct{})
	stop    func()
	cancel  func()
}

func mk(s Script, in chan int, ins chan []int) (*sut, error) {
	switch s.Kind {
	case KindV2Join:
		d, err := join.New(join.Opts[int]{Input: in, JoinSize: s.J, NoCopy: s.NoCopy, Timeout: time.Duration(s.Timeout), TimeoutInaccuracy: s.Inacc})
		if err != nil {
			return nil, err
		}
		return &sut{out: d.Output(), outFn: d.Output, release: func(<-chan struct{}) { d.Release() }}, nil
	case KindV2Unite:
		d, err := unite.New(unite.Opts[int]{Input: ins, JoinSize: s.J, NoCopy: s.NoCopy, Timeout: time.Duration(s.Timeout), TimeoutInaccuracy: s.Inacc})
		if err != nil {
			return nil, err
		}
		return &sut{out: d.Output(), outFn: d.Output, release: func(<-chan struct{}) { d.Release() }}, nil
	case KindV1Join:
		ctx, cancel := context.WithCancel(context.Background())
		var released chan struct{}
		opts := v1join.Opts[int]{Ctx: ctx, Input: in, JoinSize: s.J, Timeout: time.Duration(s.Timeout), TimeoutInaccuracy: s.Inacc}
		if s.NoCopy {
			released = make(chan struct{})
			opts.Released = released
		}
		d, err := v1join.New(opts)
		if err != nil {
			cancel()
			return nil, err
		}
		return &sut{out: d.Output(), outFn: d.Output, stop: d.Stop, cancel: cancel, release: func(done <-chan struct{}) {
			select {
			case released <- struct{}{}:
			case <-done:
			}
		}}, nil
	}
	return nil, fmt.Errorf("unknown kind %q", s.Kind)
}

func equalInts(a, b []int) bool {
	if len(a) != len(b) {
		return false
	}
	for i := range a {
		if a[i] != b[i] {
			return false
		}
	}
	return true
}

func doStop1(mu *sync.Mutex, tr *Trace, now func() int64, s Script, d *sut, stopDone chan struct{}) {
	mu.Lock()
	tr.StopIssuedAt = now()
	mu.Unlock()
	if s.Stop != nil && s.Stop.Mode == "cancel" {
		d.cancel()
		// cancellation alone must end the discipline; Stop() is only used to wait for it, after a
		// bounded virtual delay (a consumer blocked in a receive must see the closure at once)
		bound := int64(1000)
		if s.Timeout > bound {
			bound = s.Timeout
		}
		time.Sleep(time.Duration(bound))
	}
	d.stop() // also the documented way to wait for completion after a cancel
	mu.Lock()
	tr.StopReturnedAt = now()
	mu.Unlock()
	close(stopDone)
}

// Execute runs the script inside a bubble.
func execute1(t *testing.T, s Script, leakScan bool, budget time.Duration) Trace {
	tr := Trace{ClosedAt: -1, StopIssuedAt: -1, StopReturnedAt: -1}
	var before map[string]string
	if leakScan {
		before = bubble.LibGoroutines()
	}
	res := bubble.RunBudget(t, budget, func() {
		epoch := time.Now()
		now := func() int64 { return int64(time.Since(epoch)) }
		var mu sync.Mutex
		in := make(chan int, s.InCap)
		ins := make(chan []int, s.InCap)
		quit := make(chan struct{})      // ends harness helpers
		writeTrig := make(chan struct{}) // closed when the producer's write #Stop.AfterWrite has completed
		var trigOnce sync.Once
		fireTrig := func() { trigOnce.Do(func() { close(writeTrig) }) }
		stopDone := make(chan struct{}) // closed once Stop() has returned
		var helpers sync.WaitGroup

		// producer
		startProducer := func() {
			helpers.Add(1)
			go func() {
				defer helpers.Done()
				next := 0
				total := 0
				for _, st := range s.Prod {
					total += st.Len
				}
				arr := make([]int, total)
				if s.SharedLayout == 3 {
					arr = make([]int, windowBlock(s))
				}
				// offset of every input slice inside the shared array
				order := make([]int, len(s.Prod))
				for i := range order {
					order[i] = i
				}
				switch s.SharedLayout {
				case 1:
					for i := 0; i+1 < len(order); i += 2 {
						order[i], order[i+1] = order[i+1], order[i]
					}
				case 2:
					if len(order) > 1 {
						order = append(order[1:], order[0])
					}
				}
				offs := make([]int, len(s.Prod))
				pos := 0
				for _, si := range order {
					offs[si] = pos
					pos += s.Prod[si].Len
				}
				// the producer has all its data in place before it starts sending
				v := 0
				for si, st := range s.Prod {
					if s.SharedLayout == 3 {
						break
					}
					for i := 0; i < st.Len; i++ {
						arr[offs[si]+i] = v
						v++
					}
				}
				if s.SharedLayout == 3 {
					// a constant block the producer only reads; its input slices are overlapping windows
					// of it (the same memory is sent again and again)
					for i := range arr {
						arr[i] = i
					}
					for si := range s.Prod {
						offs[si] = windowOffset(s, si)
					}
				}
				for si, st := range s.Prod {
					select {
					case <-time.After(time.Duration(st.Gap)):
					case <-quit:
						return
					}
					ws := now()
					if s.Kind == KindV2Unite {
						sl := make([]int, st.Len)
						for i := range sl {
							sl[i] = next + i
						}
						if s.SharedArray {
							sl = arr[offs[si] : offs[si]+st.Len]
						}
						if s.NilEmpty && st.Len == 0 {
							sl = nil
						}
						select {
						case ins <- sl:
						case <-quit:
							return
						}
						wd := now()
						mu.Lock()
						tr.InLens = append(tr.InLens, st.Len)
						for range sl {
							tr.WStart = append(tr.WStart, ws)
							tr.WDone = append(tr.WDone, wd)
							tr.SliceOf = append(tr.SliceOf, si)
						}
						mu.Unlock()
						next += st.Len
					} else {
						select {
						case in <- next:
						case <-quit:
							return
						}
						wd := now()
						if s.Stop != nil && s.Stop.AfterWrite > 0 && next+1 == s.Stop.AfterWrite {
							fireTrig()
						}
						mu.Lock()
						tr.InLens = append(tr.InLens, 1)
						tr.WStart = append(tr.WStart, ws)
						tr.WDone = append(tr.WDone, wd)
						tr.SliceOf = append(tr.SliceOf, si)
						mu.Unlock()
						next++
					}
				}
				fireTrig() // a plan that asked for more writes than the script has: stop at the end of production
				if s.NoClose && s.Stop != nil && s.Stop.AfterRecv < 0 && s.Kind == KindV1Join {
					return
				}
				select {
				case <-time.After(time.Duration(s.CloseGap)):
				case <-quit:
					return
				}
				mu.Lock()
				tr.CloseAt = now()
				mu.Unlock()
				close(in)
				close(ins)
			}()
		}
		if s.PreStart {
			// the producer has written what fits into the input, or is blocked in its first write,
			// before the discipline exists
			startProducer()
			bubble.Wait()
		}
		d, err := mk(s, in, ins)
		if err != nil {
			tr.NewErr = err.Error()
			close(quit)
			helpers.Wait()
			return
		}
		if !s.PreStart {
			startProducer()
		}

		var stopOnce sync.Once
		doStop := func() {
			stopOnce.Do(func() { doStop1(&mu, &tr, now, s, d, stopDone) })
		}
		stopped := func() bool {
			select {
			case <-stopDone:
				return true
			default:
				return false
			}
		}
		if s.Stop != nil && s.Stop.AfterRecv < 0 && d.stop != nil {
			helpers.Add(1)
			go func() {
				defer helpers.Done()
				if s.Stop.AfterWrite > 0 {
					select {
					case <-writeTrig:
					case <-quit:
						return
					}
				} else {
					select {
					case <-time.After(time.Duration(s.Stop.AtTime)):
					case <-quit:
						return
					}
				}
				doStop()
			}()
		}

		record := func(sl []int, enter ...int64) *Out {
			o := Out{At: now(), Snap: append([]int(nil), sl...), Live: sl, RecvEnter: -1}
			if len(enter) > 0 {
				o.RecvEnter = enter[0]
			}
			if cap(sl) > 0 {
				o.Ptr = uintptr(unsafe.Pointer(unsafe.SliceData(sl)))
				o.CapBytes = uintptr(cap(sl)) * unsafe.Sizeof(int(0))
			}
			mu.Lock()
			tr.Outs = append(tr.Outs, o)
			p := &tr.Outs[len(tr.Outs)-1]
			mu.Unlock()
			return p
		}

		// consumer = this goroutine
		stoppedByConsumer := false
	consume:
		for k := 0; ; k++ {
			var c CStep
			if len(s.Cons) > 0 {
				c = s.Cons[k%len(s.Cons)]
			}
			if c.Delay > 0 {
				time.Sleep(time.Duration(c.Delay))
			}
			var sl []int
			var ok bool
			enter := int64(-1)
			if stopped() {
				// Stop() has returned: the output must already be closed, so a receive never blocks
				select {
				case sl, ok = <-d.out:
				default:
					tr.NotClosedAtStop = true
					break consume
				}
				if ok {
					tr.AfterStopOuts++
				}
			} else {
				mu.Lock()
				tr.RecvEnterAt = now()
				enter = tr.RecvEnterAt
				mu.Unlock()
				sl, ok = <-d.outFn()
				if !ok {
					tr.ClosedBlocking = true
				}
			}
			if !ok {
				tr.ClosedAt = now()
				if leakScan {
					// the output is closed = the discipline has terminated: at the first quiescent
					// point, with no virtual time gone by, nothing it started may be left
					bubble.Wait()
					for id, fr := range bubble.LibGoroutines() {
						if _, ok := before[id]; !ok {
							tr.Leaked = append(tr.Leaked, fr+" (at the first quiescent point after the output was seen closed)")
						}
					}
				}
				break
			}
			idx := len(tr.Outs)
			record(sl, enter)
			if s.Stop != nil && s.Stop.AfterRecv == k && d.stop != nil && !stopped() {
				// stop while this delivery is held and not released
				if c.Hold > 0 {
					time.Sleep(time.Duration(c.Hold) / 2)
				}
				doStop()
				stoppedByConsumer = true
				// drain without blocking: closed is required right now
				for {
					select {
					case x, ok2 := <-d.out:
						if !ok2 {
							tr.ClosedAt = now()
						} else {
							tr.AfterStopOuts++
							record(x)
							continue
						}
					default:
						tr.NotClosedAtStop = true
					}
					if leakScan {
						// Stop() has returned: the same holds
						bubble.Wait()
						for id, fr := range bubble.LibGoroutines() {
							if _, ok := before[id]; !ok {
								tr.Leaked = append(tr.Leaked, fr+" (at the first quiescent point after Stop() returned)")
							}
						}
					}
					break
				}
				break consume
			}
			if c.Hold > 0 {
				time.Sleep(time.Duration(c.Hold))
			}
			if s.NoCopy {
				// nothing else may be produced while the slice is held
				bubble.Wait()
				select {
				case x, ok2 := <-d.out:
					if ok2 {
						tr.ExtraDuringHold++
						record(x)
					}
				default:
				}
			}
			mu.Lock()
			tr.Outs[idx].AtRel = append([]int(nil), sl...)
			tr.Outs[idx].HoldNs = c.Hold
			mu.Unlock()
			if c.Scribble && !s.NoCopy {
				for i := range sl {
					sl[i] = -1000000 - i
				}
				mu.Lock()
				tr.Outs[idx].Scribble = true
				mu.Unlock()
			}
			if c.Append > 0 && !s.NoCopy {
				// the slice is the consumer's own: growing it must stay invisible to everybody else
				for i := 0; i < c.Append; i++ {
					sl = append(sl, -2000000-i)
				}
			}
			if s.NoCopy {
				mu.Lock()
				tr.Outs[idx].Released = true
				mu.Unlock()
				d.release(stopDone)
			}
		}

		if s.Stop != nil && d.stop != nil {
			// after a stop the delivered slices must never be touched again, however long the
			// producer keeps pushing
			if !stopped() {
				if s.Stop.AfterRecv < 0 && d.stop != nil {
					// the stopper goroutine owns the call (it may be in the middle of it): wait on a
					// channel - waiting on its sync.Once would block this goroutine on a mutex, which
					// does not count as durably blocked, and the fake clock would stop
					<-stopDone
				} else {
					// plan never triggered (run ended first): make sure the discipline ends
					doStop()
				}
			}
			_ = stoppedByConsumer
			wait := int64(1000)
			if s.Timeout > 0 {
				wait += 3 * s.Timeout
			}
			time.Sleep(time.Duration(wait))
			bubble.Wait()
			if s.SecondInstance {
				// "never touched again" also holds against other instances: a second discipline of
				// the same element type is created, fed and read to its end while the slices of the
				// stopped one are still kept
				in2 := make(chan int, 4)
				s2 := s
				s2.Stop = nil
				if d2, err := mk(s2, in2, make(chan []int)); err == nil {
					go func() {
						for i := 0; i < int(min(s.J, 64))*2+1; i++ {
							in2 <- 5000000 + i
						}
						close(in2)
					}()
					for range d2.outFn() {
						if s.NoCopy {
							d2.release(make(chan struct{}))
						}
					}
					if d2.cancel != nil {
						d2.cancel()
					}
				}
				bubble.Wait()
			}
			for i := range tr.Outs {
				o := &tr.Outs[i]
				if o.Scribble || (s.NoCopy && o.Released) {
					continue
				}
				ref := o.Snap
				if !equalInts(o.Live, ref) {
					tr.ChangedAfterStop = fmt.Sprintf("delivery #%d was %v at delivery and is %v after Stop returned and %dns more", i, ref, o.Live, wait)
					break
				}
			}
		}
		close(quit)
		helpers.Wait()
		if leakScan {
			// before the context is cancelled: a terminated discipline must not depend on that
			bubble.Wait()
			after := bubble.LibGoroutines()
			for id, fr := range after {
				if _, ok := before[id]; !ok && len(tr.Leaked) == 0 {
					tr.Leaked = append(tr.Leaked, fr)
				}
			}
		}
		if d.cancel != nil {
			d.cancel()
		}
	})
	if res.Spin {
		// the abandoned bubble may still be writing to tr: report nothing but the verdict
		return Trace{Spin: true, Deadlock: res.Deadlock, ClosedAt: -1, StopIssuedAt: -1, StopReturnedAt: -1}
	}
	tr.Deadlock = res.Deadlock
	tr.HarnessPanic = res.Panic
	if s.Kind == KindV2Unite && s.SharedArray && s.SharedLayout == 3 {
		normaliseWindows(s, &tr)
	}
	return tr
}

// windowBlock is the size of the constant block of layout 3; windowOffset the start of input
// slice #si in it (windows slide by one element and wrap, so neighbours overlap almost wholly
// and equal lengths repeat the very same slice every few sends).
func windowBlock(s Script) int {
	m := 0
	for _, st := range s.Prod {
		m = max(m, st.Len)
	}
	return m + 2
}

func windowOffset(s Script, si int) int {
	return si % (windowBlock(s) - s.Prod[si].Len + 1)
}

// normaliseWindows rewrites the observed values of a layout-3 run into stream positions, the
// form every oracle works with: element #i of the stream becomes i when it carries the value the
// producer sent at that position, and -3000000-i when it carries anything else. Values the
// consumer itself wrote (<= -1000000) are kept.
func normaliseWindows(s Script, tr *Trace) {
	var exp []int
	for si, st := range s.Prod {
		for j := 0; j < st.Len; j++ {
			exp = append(exp, windowOffset(s, si)+j)
		}
	}
	norm := func(pos int, raw []int) []int {
		if raw == nil {
			return nil
		}
		out := make([]int, len(raw))
		for j, v := range raw {
			switch {
			case v <= -1000000:
				out[j] = v
			case pos+j < len(exp) && v == exp[pos+j]:
				out[j] = pos + j
			default:
				out[j] = -3000000 - (pos + j)
			}
		}
		return out
	}
	pos := 0
	for i := range tr.Outs {
		o := &tr.Outs[i]
		n := len(o.Snap)
		o.Snap, o.AtRel, o.Live = norm(pos, o.Snap), norm(pos, o.AtRel), norm(pos, o.Live)
		pos += n
	}
}

// Execute runs the script inside a bubble. A case that exceeds the real-time budget (a
// spinning goroutine) is executed once more with a larger budget before it is reported.
func Execute(t *testing.T, s Script, leakScan bool) Trace {
	b := bubble.CaseBudget()
	tr := execute1(t, s, leakScan, b)
	if tr.Spin && b > 0 {
		tr = execute1(t, s, leakScan, 3*b)
		tr.RetriedAfterSpin = true
	}
	return tr
}
