package limitl

import (
	"testing"

	"cqosverif/internal/evid"
)

func summary(s Script, tr Trace) any {
	return map[string]any{"recv_ns": tr.Recv, "closed_at_ns": tr.ClosedAt, "input_closed_at_ns": tr.CloseAt}
}

func TestC04(t *testing.T) {
	evid.Run(t, evid.Prop[Script]{
		ID:   "C04",
		Rule: "rapid-generated limit scripts (rates from 1 per ns to MaxUint64 per hour, input capacity 0..300, producer gaps around the interval, producer started before or after creation, consumer delays) run on a fake clock; non-trivial = at least 2 rate batches were needed (N > Q) and a producer stall longer than the interval was followed by a burst, or the consumer was slow with N > Q; distinct = distinct script JSON",
		Gen:  Gen,
		Run: func(s Script) evid.Outcome {
			tr := Execute(t, s, false)
			n, sb, cl := s.Shape()
			o := evid.Outcome{Classes: cl, Summary: summary(s, tr)}
			o.NonTrivial = uint64(n) > s.Q && (sb || !s.alwaysReady())
			if tr.Deadlock != "" && tr.Early == "" {
				o.Skip = "run did not complete (belongs to C12)"
				return o
			}
			o.Err = CheckC04(s, tr)
			return o
		},
	})
}

func TestC12(t *testing.T) {
	evid.Run(t, evid.Prop[Script]{
		ID:   "C12",
		Rule: "rapid-generated limit scripts on a fake clock; non-trivial = the element count is in a boundary class (0, <Q, =Q, multiple of Q, Q=1) or the input is unbuffered, and the consumer was always ready, or steady and faster than the limit, so the timing clauses applied; distinct = distinct script JSON",
		Gen:  Gen,
		Run: func(s Script) evid.Outcome {
			tr := Execute(t, s, false)
			n, _, cl := s.Shape()
			o := evid.Outcome{Classes: cl, Summary: summary(s, tr)}
			boundary := n == 0 || uint64(n) <= s.Q || uint64(n)%s.Q == 0 || s.Q == 1 || s.InCap == 0
			_, steady := s.steadyConsumer()
			o.NonTrivial = boundary && (s.alwaysReady() || steady)
			o.Err = CheckC12(s, tr)
			o.NoShrink = tr.Spin
			return o
		},
	})
}

func TestC19(t *testing.T) {
	evid.Run(t, evid.Prop[Script]{
		ID:   "C19",
		Rule: "limit lab: goroutine dump after the output closed; non-trivial = at least one pause was pending or taken (N >= Q)",
		Gen:  Gen,
		Run: func(s Script) evid.Outcome {
			tr := Execute(t, s, true)
			n, _, cl := s.Shape()
			o := evid.Outcome{Classes: append(cl, "limit"), Summary: summary(s, tr)}
			if tr.HarnessPanic != "" {
				o.Skip = "harness panic"
				return o
			}
			o.NonTrivial = uint64(n) >= s.Q
			if tr.Deadlock != "" && len(tr.Leaked) == 0 {
				o.Skip = "run did not complete"
				return o
			}
			o.Err = CheckC19(s, tr)
			return o
		},
	})
}

// TestC20 only executes scripts; the oracle is the race detector the binary is built with.
func TestC20(t *testing.T) {
	evid.Run(t, evid.Prop[Script]{
		ID:   "C20",
		Rule: "limit lab under -race: producer, consumer and discipline goroutines; non-trivial = at least one element passed",
		Gen:  Gen,
		Run: func(s Script) evid.Outcome {
			tr := Execute(t, s, false)
			_, _, cl := s.Shape()
			return evid.Outcome{Classes: append(cl, "limit"), NonTrivial: len(tr.Recv) > 0, Summary: summary(s, tr)}
		},
	})
}
