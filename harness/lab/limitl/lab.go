// Package limitl is the lab of the v2 limit discipline: a generated producer/consumer
// script is executed against the real discipline on a fake clock and the exact receive
// times are compared with the rate bounds (C04) and the pass-through contract (C12).
package limitl

import (
	"fmt"
	"math/bits"
	"runtime"
	"testing"
	"time"

	"cqosverif/internal/bubble"

	"github.com/akramarenkov/cqos/v2/limit"
	"pgregory.net/rapid"
)

// Script is the plain-data description of one run (also the replay file format).
type Script struct {
	Q        uint64  `json:"quantity"`
	I        int64   `json:"interval_ns"`
	InCap    int     `json:"input_cap"`
	Gaps     []int64 `json:"producer_gaps_ns"` // pause before each write; one element per entry
	CloseGap int64   `json:"close_gap_ns"`
	Cons     []int64 `json:"consumer_delays_ns"` // pause before each receive, cycled; empty = always ready
	// PreStart: the producer is started, and has filled the input buffer or is blocked in its
	// first send, before the discipline is created
	PreStart bool `json:"producer_started_before_creation,omitempty"`
	// Elem: element type the generic discipline is instantiated with: "" = int, "empty" = struct{}
	// (zero size: order cannot be observed, only count, timing and closure), "wide" = a 264-byte struct, "iface" = interface values, every third of them nil
	Elem string `json:"element_type,omitempty"`
	// DropHandle: the consumer keeps only the channel returned by Output(), drops the discipline
	// value and forces garbage collections during the run
	DropHandle bool `json:"consumer_keeps_only_the_output_channel,omitempty"`
}

// Trace is what was observed.
type Trace struct {
	HarnessPanic string // a panic of the harness itself (never blamed on the library)
	Spin         bool   // the case exceeded its real-time budget twice (a goroutine spins); only Deadlock is set then
	WStart       []int64
	WDone        []int64
	Recv         []int64
	Vals         []int
	CloseAt      int64 // producer closed the input
	ClosedAt     int64 // consumer saw the output closed (-1 = never)
	NewErr       string
	Deadlock     string
	Leaked       []string
	// Early: the first receive at which the cumulative bound of C04 was exceeded (noted while the
	// run goes on)
	Early string
}

func (s Script) alwaysReady() bool {
	for _, d := range s.Cons {
		if d != 0 {
			return false
		}
	}
	return true
}

// steadyConsumer : every write is immediate and the consumer pauses the same d > 0 before every
// receive with Q*d <= I.
func (s Script) steadyConsumer() (int64, bool) {
	if len(s.Cons) == 0 {
		return 0, false
	}
	d := s.Cons[0]
	for _, c := range s.Cons {
		if c != d {
			return 0, false
		}
	}
	for _, g := range s.Gaps {
		if g != 0 {
			return 0, false
		}
	}
	if d <= 0 || mulSat(s.Q, uint64(d)) > uint64(s.I) {
		return 0, false
	}
	return d, true
}

type wide struct {
	id  int
	pad [32]int64
}

// Execute runs the script against the real limit discipline inside a bubble.
func execute1(t *testing.T, s Script, leakScan bool, budget time.Duration) Trace {
	switch s.Elem {
	case "empty":
		return executeT(t, s, leakScan, budget, func(int) struct{} { return struct{}{} }, func(_ struct{}, k int) int { return k })
	case "wide":
		return executeT(t, s, leakScan, budget, func(i int) wide { return wide{id: i} }, func(w wide, _ int) int { return w.id })
	case "iface":
		// an interface element type; every third element is the nil interface value, which is an
		// element like any other
		return executeT(t, s, leakScan, budget, func(i int) any {
			if i%3 == 1 {
				return nil
			}
			return i
		}, func(v any, k int) int {
			if v == nil {
				return k
			}
			return v.(int)
		})
	}
	return executeT(t, s, leakScan, budget, func(i int) int { return i }, func(v int, _ int) int { return v })
}

// executeT : mk makes element #i, val tells which element number a received value is (for a
// zero-size type: the position it was received at).
func executeT[T any](t *testing.T, s Script, leakScan bool, budget time.Duration, mk func(int) T, val func(T, int) int) Trace {
	n := len(s.Gaps)
	tr := Trace{WStart: make([]int64, 0, n), WDone: make([]int64, 0, n), ClosedAt: -1}
	var before map[string]string
	if leakScan {
		before = bubble.LibGoroutines()
	}
	res := bubble.RunBudget(t, budget, func() {
		epoch := time.Now()
		now := func() int64 { return int64(time.Since(epoch)) }
		in := make(chan T, s.InCap)
		produce := func() {
			for i, g := range s.Gaps {
				time.Sleep(time.Duration(g))
				tr.WStart = append(tr.WStart, now())
				in <- mk(i)
				tr.WDone = append(tr.WDone, now())
			}
			time.Sleep(time.Duration(s.CloseGap))
			tr.CloseAt = now()
			close(in)
		}
		if s.PreStart {
			go produce()
			bubble.Wait() // the producer has written what fits and is blocked (or done)
		}
		var dsc *limit.Discipline[T]
		var err error
		func() {
			defer func() {
				if r := recover(); r != nil {
					err = fmt.Errorf("limit.New panicked: %v", r)
				}
			}()
			dsc, err = limit.New(limit.Opts[T]{Input: in, Limit: limit.Rate{Interval: time.Duration(s.I), Quantity: s.Q}})
		}()
		if err != nil {
			tr.NewErr = err.Error()
			if s.PreStart {
				go func() { // let the producer finish
					for range in {
					}
				}()
			}
			return
		}
		// the accessor is an accessor: asking for the channel again (here for its capacity, then on
		// every receive) must change nothing
		_ = cap(dsc.Output())
		if !s.PreStart {
			go produce()
		}
		var kept <-chan T
		if s.DropHandle {
			// the consumer keeps the channel only; the discipline value itself becomes garbage and
			// collections run while elements are still on their way
			kept = dsc.Output()
			dsc = nil
		}
		for k := 0; ; k++ {
			if len(s.Cons) > 0 {
				time.Sleep(time.Duration(s.Cons[k%len(s.Cons)]))
			}
			out := kept
			if out == nil {
				out = dsc.Output()
			} else if k == 1 || k == 3 {
				runtime.GC()
				runtime.GC()
				for i := 0; i < 2000; i++ {
					runtime.Gosched() // finalizers run on a goroutine of their own: give it the processor
				}
			}
			v, ok := <-out
			if !ok {
				tr.ClosedAt = now()
				break
			}
			tr.Recv = append(tr.Recv, now())
			tr.Vals = append(tr.Vals, val(v, len(tr.Vals)))
			if r := tr.Recv[len(tr.Recv)-1]; tr.Early == "" && uint64(len(tr.Recv)) > mulSat(s.Q, uint64(r/s.I)+1) {
				tr.Early = fmt.Sprintf("cumulative bound: %d elements received by t=%dns, allowed %d (Q=%d I=%dns)", len(tr.Recv), r, mulSat(s.Q, uint64(r/s.I)+1), s.Q, s.I)
			}
		}
		if !leakScan {
			return
		}
		bubble.Wait()
		after := bubble.LibGoroutines()
		for id, fr := range after {
			if _, ok := before[id]; !ok {
				tr.Leaked = append(tr.Leaked, fr)
			}
		}
	})
	if res.Spin {
		// the abandoned bubble may still be writing to tr: report nothing but the verdict
		return Trace{Spin: true, Deadlock: res.Deadlock, ClosedAt: -1}
	}
	tr.Deadlock = res.Deadlock
	tr.HarnessPanic = res.Panic
	return tr
}

func mulSat(a, b uint64) uint64 {
	hi, lo := bits.Mul64(a, b)
	if hi != 0 {
		return ^uint64(0)
	}
	return lo
}

func addSat(a, b uint64) uint64 {
	s, c := bits.Add64(a, b, 0)
	if c != 0 {
		return ^uint64(0)
	}
	return s
}

// CheckC04 : at most Q*(floor(t/I)+1) elements by time t, any window of length W holds at
// most Q*(floor(W/I)+2) (+ the output buffer when the consumer was not always ready).
func CheckC04(s Script, tr Trace) error {
	if tr.NewErr != "" {
		return nil
	}
	if tr.Early != "" {
		return fmt.Errorf("%s", tr.Early)
	}
	q, iv := s.Q, s.I
	for i, r := range tr.Recv {
		lim := mulSat(q, uint64(r/iv)+1)
		if uint64(i+1) > lim {
			return fmt.Errorf("cumulative bound: %d elements received by t=%dns, allowed %d (Q=%d I=%dns)", i+1, r, lim, q, iv)
		}
	}
	slack := uint64(0)
	if !s.alwaysReady() {
		slack = uint64(1 + s.InCap)
	}
	for i := range tr.Recv {
		for j := i; j < len(tr.Recv); j++ {
			w := tr.Recv[j] - tr.Recv[i]
			lim := addSat(mulSat(q, uint64(w/iv)+2), slack)
			if uint64(j-i+1) > lim {
				return fmt.Errorf("window bound: %d elements received within %dns (from t=%d), allowed %d (Q=%d I=%dns slack=%d)", j-i+1, w, tr.Recv[i], lim, q, iv, slack)
			}
		}
	}
	return nil
}

// CheckC12 : lossless ordered pass-through, closes, no extra throttling.
func CheckC12(s Script, tr Trace) error {
	if tr.NewErr != "" {
		return fmt.Errorf("New rejected a valid rate: %s", tr.NewErr)
	}
	if tr.Deadlock != "" && tr.ClosedAt < 0 {
		return fmt.Errorf("run did not complete (output never closed / deadlock): %s", firstLine(tr.Deadlock))
	}
	n := len(s.Gaps)
	if len(tr.Vals) != n {
		return fmt.Errorf("received %d elements, written %d", len(tr.Vals), n)
	}
	for i, v := range tr.Vals {
		if v != i {
			return fmt.Errorf("element #%d is %d, expected %d (order/duplication)", i, v, i)
		}
	}
	if tr.ClosedAt < 0 {
		return fmt.Errorf("output not closed")
	}
	if d, ok := s.steadyConsumer(); ok {
		// Everything is available up-front and the consumer, taking one element every d with
		// Q*d <= I, is faster than the limit: a batch never lasts longer than the interval, batch k
		// starts at k*I and the consumer has finished the previous one by then.
		within := addSat(mulSat(min(s.Q, uint64(n))+1, uint64(d)), 0)
		for i := range tr.Recv {
			lim := addSat(mulSat(uint64(i)/s.Q, uint64(s.I)), within)
			if uint64(tr.Recv[i]) > lim {
				return fmt.Errorf("extra throttling: all data up-front, consumer takes one element per %dns (Q*d <= I), element %d delivered at %d, later than floor(i/Q)*I + (min(Q,N)+1)*d = %d", d, i, tr.Recv[i], lim)
			}
		}
	}
	if !s.alwaysReady() {
		return nil
	}
	q, iv := s.Q, s.I
	if uint64(n) < q {
		for i := range tr.Recv {
			if tr.Recv[i] != tr.WStart[i] {
				return fmt.Errorf("N=%d < Q=%d but element %d written at %d was delivered at %d (a pause happened)", n, q, i, tr.WStart[i], tr.Recv[i])
			}
		}
		if tr.ClosedAt != tr.CloseAt {
			return fmt.Errorf("N=%d < Q=%d but output closed at %d, input closed at %d", n, q, tr.ClosedAt, tr.CloseAt)
		}
	}
	allZero := true
	for _, g := range s.Gaps {
		if g != 0 {
			allZero = false
		}
	}
	for i := range tr.Recv {
		if allZero {
			lim := mulSat(uint64(i)/q, uint64(iv))
			if uint64(tr.Recv[i]) > lim {
				return fmt.Errorf("up-front data: element %d delivered at %d, later than floor(i/Q)*I=%d", i, tr.Recv[i], lim)
			}
		}
		lim := tr.WStart[i]
		if uint64(i) >= q {
			if p := tr.Recv[uint64(i)-q] + iv; p > lim {
				lim = p
			}
		}
		if tr.Recv[i] > lim {
			return fmt.Errorf("extra throttling: element %d available at %d delivered at %d, bound max(avail, d[i-Q]+I)=%d", i, tr.WStart[i], tr.Recv[i], lim)
		}
	}
	last := tr.CloseAt
	if n > 0 && tr.Recv[n-1] > last {
		last = tr.Recv[n-1]
	}
	if tr.ClosedAt > last+iv {
		return fmt.Errorf("output closed at %d, later than max(last delivery, input close)+I = %d", tr.ClosedAt, last+iv)
	}
	return nil
}

// CheckC19 : no goroutine started by the discipline survives the closing of its output.
func CheckC19(s Script, tr Trace) error {
	if tr.NewErr != "" || tr.ClosedAt < 0 {
		return nil
	}
	if len(tr.Leaked) > 0 {
		return fmt.Errorf("goroutines started by the limit discipline remain after its output closed: %v", tr.Leaked)
	}
	return nil
}

func firstLine(s string) string {
	for i := 0; i < len(s); i++ {
		if s[i] == '\n' {
			return s[:i]
		}
	}
	return s
}

// Batches returns the number of rate batches the run needed and whether a producer stall
// longer than the interval was followed by more data (used for the non-trivial rules).
func (s Script) Shape() (n int, stallBurst bool, classes []string) {
	n = len(s.Gaps)
	for i, g := range s.Gaps {
		if g > s.I && i > 0 && i+1 < n && s.Gaps[i+1] < s.I {
			stallBurst = true
		}
	}
	switch {
	case n == 0:
		classes = append(classes, "N=0")
	case uint64(n) < s.Q:
		classes = append(classes, "N<Q")
	case uint64(n) == s.Q:
		classes = append(classes, "N=Q")
	case uint64(n)%s.Q == 0:
		classes = append(classes, "N=kQ")
	default:
		classes = append(classes, "N=kQ+r")
	}
	if s.Q == 1 {
		classes = append(classes, "Q=1")
	}
	if s.InCap == 0 {
		classes = append(classes, "unbuffered")
	}
	if s.alwaysReady() {
		classes = append(classes, "consumer-ready")
	} else {
		classes = append(classes, "consumer-slow")
	}
	if stallBurst {
		classes = append(classes, "stall-then-burst")
	}
	return
}

// Gen draws limit scripts.
func Gen(thorough bool) *rapid.Generator[Script] {
	return rapid.Custom(func(t *rapid.T) Script {
		var s Script
		// small quantities, large ones, and the edges of the unsigned range (Quantity is a uint64)
		qs := []uint64{1, 2, 3, 4, 5, 6, 1000, 1 << 40, 1<<63 + 1, ^uint64(0)}
		if thorough {
			qs = append(qs, 7, 10, 1<<31, 1<<32+1, 1<<63-1, 1<<63)
		}
		s.Q = rapid.SampledFrom(qs).Draw(t, "Q")
		// nanoseconds to hours: virtual time costs nothing
		s.I = rapid.SampledFrom([]int64{1000, 1000000, 1000000000, 7, 1, 1500000000, 60000000000, 3600000000000}).Draw(t, "I")
		s.InCap = rapid.SampledFrom([]int{0, 0, 1, 2, 3, 8, 64, 300}).Draw(t, "cap")
		iv := s.I
		gapPool := []int64{0, 0, 0, iv / 10, iv / 2, iv - 1, iv, iv + 1, 3 * iv}
		maxN := 24
		if thorough {
			maxN = 48
		}
		n := rapid.IntRange(0, maxN).Draw(t, "n")
		if rapid.IntRange(0, 15).Draw(t, "long") == 0 {
			n = rapid.IntRange(100, 400).Draw(t, "nlong") // more elements than any buffer
		}
		mode := rapid.SampledFrom([]string{"prefilled", "mixed", "trickle", "stallburst"}).Draw(t, "mode")
		s.Gaps = make([]int64, n)
		for i := range s.Gaps {
			switch mode {
			case "prefilled":
				s.Gaps[i] = 0
			case "trickle":
				s.Gaps[i] = rapid.SampledFrom([]int64{iv / 10, iv / 2, iv - 1, iv, iv + 1}).Draw(t, "g")
			case "stallburst":
				if rapid.IntRange(0, 5).Draw(t, "st") == 0 {
					s.Gaps[i] = rapid.SampledFrom([]int64{iv + 1, 2*iv - 1, 3 * iv, 10 * iv}).Draw(t, "g")
				}
			default:
				s.Gaps[i] = rapid.SampledFrom(gapPool).Draw(t, "g")
			}
		}
		s.CloseGap = rapid.SampledFrom([]int64{0, 0, iv / 2, iv, 2 * iv}).Draw(t, "cg")
		if rapid.IntRange(0, 3).Draw(t, "slow") == 0 {
			k := rapid.IntRange(1, 4).Draw(t, "nc")
			for j := 0; j < k; j++ {
				s.Cons = append(s.Cons, rapid.SampledFrom([]int64{0, 0, iv / 3, iv, 2*iv + 1, 5 * iv}).Draw(t, "cd"))
			}
		}
		s.PreStart = rapid.IntRange(0, 2).Draw(t, "prestart") == 0
		// a forced collection costs real time: about one script in 300 (rapid draws the bit length
		// uniformly, the top length class of 0..511 holds 256 values)
		dh := rapid.IntRange(0, 511).Draw(t, "drophandle")
		s.DropHandle = dh >= 256 && dh < 264
		s.Elem = rapid.SampledFrom([]string{"", "", "", "", "empty", "wide", "iface"}).Draw(t, "elem")
		if s.Q <= 1000 && rapid.IntRange(0, 7).Draw(t, "steady") == 0 {
			// everything up-front, several batches, a consumer that needs a fixed time per element
			// and is still faster than the limit (output back-pressure inside a batch)
			k := rapid.SampledFrom([]int64{1, 1, 2, 3, 10}).Draw(t, "steadyk")
			if d := s.I / (int64(s.Q) * k); d >= 1 {
				s.Cons = []int64{d}
				nb := rapid.IntRange(2, 8).Draw(t, "steadybatches")
				n := int(s.Q)*nb + rapid.IntRange(0, int(s.Q)-1).Draw(t, "steadyrest")
				if n > 400 {
					n = 400
				}
				s.Gaps = make([]int64, n)
			}
		}
		return s
	})
}

// Execute runs the script inside a bubble. A case that exceeds the real-time budget (a
// spinning goroutine) is executed once more with a larger budget before it is reported.
func Execute(t *testing.T, s Script, leakScan bool) Trace {
	b := bubble.CaseBudget()
	tr := execute1(t, s, leakScan, b)
	if tr.Spin && b > 0 {
		tr = execute1(t, s, leakScan, 3*b)
	}
	return tr
}
