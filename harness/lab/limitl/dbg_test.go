package limitl

import (
	"encoding/json"
	"fmt"
	"os"
	"testing"
)

// TestDebug executes the script in $DEBUG_SCRIPT and prints the trace (development aid).
func TestDebug(t *testing.T) {
	f := os.Getenv("DEBUG_SCRIPT")
	if f == "" {
		t.Skip()
	}
	b, _ := os.ReadFile(f)
	var doc struct {
		Script Script `json:"script"`
	}
	_ = json.Unmarshal(b, &doc)
	tr := Execute(t, doc.Script, false)
	out, _ := json.MarshalIndent(tr, "", " ")
	fmt.Println(string(out))
}
