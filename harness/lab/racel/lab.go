// Package racel runs free-running, real-time scenarios under the race detector: no
// synctest bubble, hence no artificial happens-before edge between the harness and the
// discipline. The script fixes who does what and with which jitter; the interleaving is
// whatever the scheduler produces. Oracle = the race detector the binary is built with.
package racel

import (
	"context"
	"sync"
	"sync/atomic"
	"time"

	v1join "github.com/akramarenkov/cqos/join"
	v1 "github.com/akramarenkov/cqos/priority"
	"github.com/akramarenkov/cqos/v2/join"
	"github.com/akramarenkov/cqos/v2/join/unite"
	"github.com/akramarenkov/cqos/v2/limit"
	"github.com/akramarenkov/cqos/v2/priority"
	"github.com/akramarenkov/cqos/v2/priority/divider"
	"github.com/akramarenkov/cqos/v2/priority/simple"
	"pgregory.net/rapid"
)

// Ctl is a control call issued by the control goroutine.
type Ctl struct {
	AfterUs int    `json:"after_us"`
	K       string `json:"op"` // add remove gstop stop cancel
	P       uint   `json:"p"`
	Cap     int    `json:"cap"` // add: capacity of the new channel
}

// Script of one free-running scenario.
type Script struct {
	Kind      string `json:"kind"` // v2prio v2simple v1prio v1simple v2join v2unite v1join limit
	H         int    `json:"handlers"`
	Prios     []uint `json:"priorities"`
	Items     int    `json:"items_per_input"`
	InCap     int    `json:"input_cap"`
	JitUs     []int  `json:"jitter_us"` // cycled by every goroutine, 0 = none
	Ctl       []Ctl  `json:"control"`
	Rate      bool   `json:"rate_divider"`
	J         uint   `json:"join_size"`
	NoCopy    bool   `json:"no_copy"`
	TimeoutUs int    `json:"timeout_us"`
	Consumers int    `json:"consumers"`
	// v1prio: handlers take SlowUs microseconds over items of priority SlowPrio (0 = none)
	SlowPrio uint `json:"slow_priority,omitempty"`
	SlowUs   int  `json:"slow_us,omitempty"`
}

// Result summarises what happened (only for evidence; the oracle is the race detector).
type Result struct {
	Delivered int64
	Roles     int
	TimedOut  bool
	NewErr    string
}

type jit struct {
	v []int
	i int
}

func (j *jit) wait() {
	if len(j.v) == 0 {
		return
	}
	d := j.v[j.i%len(j.v)]
	j.i++
	if d > 0 {
		time.Sleep(time.Duration(d) * time.Microsecond)
	}
}

// touchOwnMap : what a caller that keeps a registry of its inputs does after the constructor has
// returned - it writes to the map it passed in Opts.Inputs.
func touchOwnMap(ins map[uint]<-chan int) {
	ins[1<<20] = nil
	delete(ins, 1<<20)
}

// readHandlerLogs reads, without any synchronisation of its own, what the handlers wrote before
// they released their items. It is only called by a goroutine that has seen the discipline
// terminate gracefully (GracefulStop returned, Err() closed), which the library orders after the
// last release - a race reported here means that order was not kept.
//
//go:noinline
func readHandlerLogs(work [][]int) int {
	n := 0
	for _, w := range work {
		n += len(w)
	}
	return n
}

// Execute runs the scenario in real time (bounded by 3 s).
func Execute(s Script) Result {
	var res Result
	ctx, cancelAll := context.WithTimeout(context.Background(), 3*time.Second)
	defer cancelAll()
	var wg, prod sync.WaitGroup // wg: handlers, consumers, control; prod: producers (ended by cancelAll once wg is done)
	var delivered atomic.Int64
	var processed atomic.Int64 // what the readers of the handler logs saw (keeps the reads alive)
	var roles atomic.Int32
	spawnIn := func(g *sync.WaitGroup, f func(j *jit)) {
		g.Add(1)
		off := int(roles.Add(1))
		go func() {
			defer g.Done()
			f(&jit{v: s.JitUs, i: off})
		}()
	}
	spawn := func(f func(j *jit)) { spawnIn(&wg, f) }
	spawnProd := func(f func(j *jit)) { spawnIn(&prod, f) }
	div2 := divider.Fair
	div1 := v1.FairDivider
	if s.Rate {
		div2, div1 = divider.Rate, v1.RateDivider
	}
	producer := func(ch chan int, n int) func(*jit) {
		return func(j *jit) {
			defer close(ch)
			for i := 0; i < n; i++ {
				j.wait()
				select {
				case ch <- i:
				case <-ctx.Done():
					return
				}
			}
		}
	}
	switch s.Kind {
	case "v2prio", "v2simple":
		ins := map[uint]<-chan int{}
		for _, p := range s.Prios {
			ch := make(chan int, s.InCap)
			ins[p] = ch
			spawnProd(producer(ch, s.Items))
		}
		if s.Kind == "v2simple" {
			d, err := simple.New(simple.Opts[int]{Divider: div2, HandlersQuantity: uint(s.H), Inputs: ins, Handle: func(int) {
				delivered.Add(1)
			}})
			if err != nil {
				res.NewErr = err.Error()
				break
			}
			touchOwnMap(ins) // the map is the caller's: it goes on using it (its registry of inputs)
			spawn(func(*jit) {
				select {
				case <-d.Err():
				case <-ctx.Done():
				}
			})
			break
		}
		d, err := priority.New(priority.Opts[int]{Divider: div2, HandlersQuantity: uint(s.H), Inputs: ins})
		if err != nil {
			res.NewErr = err.Error()
			break
		}
		touchOwnMap(ins) // the map is the caller's: it goes on using it (its registry of inputs)
		// every handler keeps a plain log of what it processed; whoever sees the discipline
		// terminated may read the logs: termination comes after the last release
		work := make([][]int, s.H+1)
		for h := 0; h < s.H+1; h++ {
			h := h
			spawn(func(j *jit) {
				for p := range d.Output() {
					delivered.Add(1)
					j.wait()
					work[h] = append(work[h], p.Item)
					d.Release(p.Priority)
				}
			})
		}
		spawn(func(*jit) {
			select {
			case <-d.Err():
				processed.Add(int64(readHandlerLogs(work)))
			case <-ctx.Done():
			}
		})
	case "v1prio", "v1simple":
		dctx, dcancel := context.WithCancel(ctx)
		defer dcancel()
		ins := map[uint]<-chan int{}
		for _, p := range s.Prios {
			ch := make(chan int, s.InCap)
			ins[p] = ch
			spawnProd(producer(ch, s.Items))
		}
		if s.Kind == "v1simple" {
			d, err := v1.NewSimple(v1.SimpleOpts[int]{Ctx: dctx, Divider: div1, HandlersQuantity: uint(s.H), Inputs: ins, Handle: func(c context.Context, _ int) {
				delivered.Add(1)
			}})
			if err != nil {
				res.NewErr = err.Error()
				break
			}
			touchOwnMap(ins) // the map is the caller's: it goes on using it (its registry of inputs)
			spawn(func(*jit) {
				start := time.Now()
				ended := false
				for _, c := range s.Ctl {
					if w := time.Duration(c.AfterUs)*time.Microsecond - time.Since(start); w > 0 {
						time.Sleep(w)
					}
					if ended {
						break
					}
					switch c.K {
					case "stop":
						d.Stop()
						ended = true
					case "cancel":
						dcancel()
						d.Stop()
						ended = true
					case "gstop":
						// terminal: no control call is issued once termination was requested
						// (AddInput/RemoveInput on a terminated discipline is misuse)
						done := make(chan struct{})
						go func() { d.GracefulStop(); close(done) }()
						select {
						case <-done:
						case <-ctx.Done():
							d.Stop()
						}
						ended = true
					}
				}
				if !ended {
					done := make(chan struct{})
					go func() { d.GracefulStop(); close(done) }()
					select {
					case <-done:
					case <-ctx.Done():
						d.Stop()
					}
				}
			})
			break
		}
		out := make(chan v1.Prioritized[int], s.InCap)
		fb := make(chan uint, s.InCap)
		d, err := v1.New(v1.Opts[int]{Ctx: dctx, Divider: div1, Feedback: fb, HandlersQuantity: uint(s.H), Inputs: ins, Output: out})
		if err != nil {
			res.NewErr = err.Error()
			break
		}
		touchOwnMap(ins) // the map is the caller's: it goes on using it (its registry of inputs)
		stopped := make(chan struct{})
		var adds sync.WaitGroup
		work := make([][]int, s.H+1) // plain per-handler logs, read after a graceful stop has returned
		readWork := func() { processed.Add(int64(readHandlerLogs(work))) }
		for h := 0; h < s.H+1; h++ {
			h := h
			spawn(func(j *jit) {
				for {
					select {
					case p := <-out:
						delivered.Add(1)
						j.wait()
						if s.SlowUs > 0 && p.Priority == s.SlowPrio {
							time.Sleep(time.Duration(s.SlowUs) * time.Microsecond)
						}
						work[h] = append(work[h], p.Item)
						select {
						case fb <- p.Priority:
						case <-stopped:
							return
						case <-ctx.Done():
							return
						}
					case <-stopped:
						return
					case <-ctx.Done():
						return
					}
				}
			})
		}
		spawn(func(*jit) {
			defer close(stopped)
			start := time.Now()
			ended := false
			for _, c := range s.Ctl {
				if w := time.Duration(c.AfterUs)*time.Microsecond - time.Since(start); w > 0 {
					time.Sleep(w)
				}
				if ended {
					break
				}
				switch c.K {
				case "add":
					// AddInput calls are issued from their own goroutines (several may be in progress
					// at once); they are all awaited before termination is requested
					ch := make(chan int, c.Cap)
					spawnProd(producer(ch, s.Items))
					p := c.P
					adds.Add(1)
					go func() {
						defer adds.Done()
						callOrEnd(ctx, func() { d.AddInput(ch, p) })
					}()
				case "remove":
					callOrEnd(ctx, func() { d.RemoveInput(c.P) })
				case "stop":
					adds.Wait()
					d.Stop()
					ended = true
				case "cancel":
					adds.Wait()
					dcancel()
					d.Stop()
					ended = true
				case "gstop":
					adds.Wait()
					done := make(chan struct{})
					go func() { d.GracefulStop(); close(done) }()
					select {
					case <-done:
						readWork() // everything handed out has been released: the logs are complete
					case <-ctx.Done():
						d.Stop()
					}
					ended = true
				}
			}
			adds.Wait()
			if !ended {
				done := make(chan struct{})
				go func() { d.GracefulStop(); close(done) }()
				select {
				case <-done:
					readWork()
				case <-ctx.Done():
					d.Stop()
				}
			}
		})
	case "v2join", "v2unite", "v1join":
		n := s.Items
		to := time.Duration(s.TimeoutUs) * time.Microsecond
		var outc <-chan []int
		var release func()
		var stop func()
		cancelled := make(chan struct{})
		var jcancel context.CancelFunc
		switch s.Kind {
		case "v2join":
			in := make(chan int, s.InCap)
			spawnProd(producer(in, n))
			d, err := join.New(join.Opts[int]{Input: in, JoinSize: s.J, NoCopy: s.NoCopy, Timeout: to})
			if err != nil {
				res.NewErr = err.Error()
				break
			}
			outc, release = d.Output(), d.Release
		case "v2unite":
			in := make(chan []int, s.InCap)
			spawnProd(func(j *jit) {
				defer close(in)
				// the producer cuts its slices out of one array and keeps reading what it sent
				total := 0
				for i := 0; i < n; i++ {
					total += i % int(s.J+2)
				}
				arr := make([]int, total)
				pos, sum := 0, 0
				for i := 0; i < n; i++ {
					j.wait()
					l := i % int(s.J+2)
					sl := arr[pos : pos+l]
					pos += l
					select {
					case in <- sl:
					case <-ctx.Done():
						return
					}
					for _, v := range arr[:pos] {
						sum += v
					}
				}
				_ = sum
			})
			d, err := unite.New(unite.Opts[int]{Input: in, JoinSize: s.J, NoCopy: s.NoCopy, Timeout: to})
			if err != nil {
				res.NewErr = err.Error()
				break
			}
			outc, release = d.Output(), d.Release
		default:
			in := make(chan int, s.InCap)
			spawnProd(producer(in, n))
			if to > 0 && to < 40*time.Millisecond {
				to = 40 * time.Millisecond
			}
			var rel chan struct{}
			jctx, jc := context.WithCancel(ctx)
			jcancel = jc
			defer jc()
			opts := v1join.Opts[int]{Ctx: jctx, Input: in, JoinSize: s.J, Timeout: to}
			if s.NoCopy {
				rel = make(chan struct{})
				opts.Released = rel
			}
			d, err := v1join.New(opts)
			if err != nil {
				res.NewErr = err.Error()
				break
			}
			outc, stop = d.Output(), d.Stop
			release = func() {
				select {
				case rel <- struct{}{}:
				case <-cancelled:
				case <-ctx.Done():
				}
			}
		}
		if outc == nil {
			break
		}
		// one consumer: reads, keeps, overwrites (copy mode) / releases (no-copy)
		spawn(func(j *jit) {
			var kept [][]int
			for sl := range outc {
				delivered.Add(int64(len(sl)))
				sum := 0
				for _, v := range sl {
					sum += v
				}
				j.wait()
				if s.NoCopy {
					// the slice is the consumer's until it signals release: keep reading it
					for r := 0; r < 8; r++ {
						for _, v := range sl {
							sum += v
						}
						time.Sleep(15 * time.Microsecond)
					}
					select {
					case <-cancelled:
						// cancelled while holding: no release is sent, the slice stays ours
						for r := 0; r < 20; r++ {
							for _, v := range sl {
								sum += v
							}
							time.Sleep(20 * time.Microsecond)
						}
						return
					default:
					}
					release()
				} else {
					// the copy is the consumer's own: it keeps it, overwrites it and grows it
					sl = append(sl, -sum, -sum-1)
					kept = append(kept, sl)
					for _, k := range kept {
						for i := range k {
							k[i] = -sum
						}
					}
				}
			}
		})
		if jcancel != nil {
			for _, c := range s.Ctl {
				if c.K == "cancel" {
					c := c
					spawn(func(*jit) {
						time.Sleep(time.Duration(c.AfterUs) * time.Microsecond)
						close(cancelled)
						jcancel()
					})
					break
				}
			}
		}
		if stop != nil {
			for _, c := range s.Ctl {
				if c.K == "stop" {
					c := c
					spawn(func(*jit) {
						time.Sleep(time.Duration(c.AfterUs) * time.Microsecond)
						stop()
					})
					break
				}
			}
		}
	case "limit":
		in := make(chan int, s.InCap)
		spawnProd(producer(in, s.Items))
		d, err := limit.New(limit.Opts[int]{Input: in, Limit: limit.Rate{Interval: 50 * time.Microsecond, Quantity: uint64(s.H)}})
		if err != nil {
			res.NewErr = err.Error()
			break
		}
		for c := 0; c < 1+s.Consumers; c++ {
			spawn(func(j *jit) {
				for range d.Output() {
					delivered.Add(1)
					j.wait()
				}
			})
		}
	}
	done := make(chan struct{})
	go func() { wg.Wait(); close(done) }()
	select {
	case <-done:
	case <-time.After(4 * time.Second):
		res.TimedOut = true
	}
	cancelAll()
	prod.Wait()
	res.Delivered = delivered.Load()
	res.Roles = int(roles.Load())
	return res
}

func callOrEnd(ctx context.Context, f func()) {
	done := make(chan struct{})
	go func() {
		defer func() { _ = recover() }() // AddInput/RemoveInput after termination panic on a closed channel
		defer close(done)
		f()
	}()
	select {
	case <-done:
	case <-ctx.Done():
	}
}

// Gen draws scenarios.
func Gen(thorough bool) *rapid.Generator[Script] {
	return rapid.Custom(func(t *rapid.T) Script {
		var s Script
		s.Kind = rapid.SampledFrom([]string{"v2prio", "v2simple", "v1prio", "v1prio", "v1simple", "v2join", "v2unite", "v1join", "v1join", "limit"}).Draw(t, "kind")
		np := rapid.IntRange(1, 3).Draw(t, "np")
		s.Prios = []uint{3, 2, 1}[:np]
		s.H = rapid.IntRange(6, 12).Draw(t, "h")
		s.Items = rapid.IntRange(1, 60).Draw(t, "items")
		s.InCap = rapid.SampledFrom([]int{0, 1, 4, 16}).Draw(t, "cap")
		s.Rate = rapid.Bool().Draw(t, "rate")
		k := rapid.IntRange(0, 4).Draw(t, "nj")
		for i := 0; i < k; i++ {
			s.JitUs = append(s.JitUs, rapid.SampledFrom([]int{0, 0, 1, 5, 20, 200, 1000}).Draw(t, "j"))
		}
		s.J = uint(rapid.IntRange(1, 8).Draw(t, "J"))
		s.NoCopy = rapid.Bool().Draw(t, "nocopy")
		s.TimeoutUs = rapid.SampledFrom([]int{0, 100, 1000}).Draw(t, "to")
		s.Consumers = rapid.IntRange(0, 2).Draw(t, "cons")
		nc := rapid.IntRange(0, 4).Draw(t, "nctl")
		at := 0
		for i := 0; i < nc; i++ {
			at += rapid.IntRange(0, 300).Draw(t, "dt")
			c := Ctl{AfterUs: at, K: rapid.SampledFrom([]string{"add", "add", "remove", "gstop", "stop", "cancel"}).Draw(t, "ck"), P: uint(rapid.IntRange(1, 5).Draw(t, "cp")), Cap: rapid.SampledFrom([]int{0, 0, 4}).Draw(t, "ccap")}
			s.Ctl = append(s.Ctl, c)
			if c.K == "remove" && s.Kind == "v1prio" && rapid.Bool().Draw(t, "slowremoved") {
				// the handlers are slow with exactly the priority that gets removed
				s.SlowPrio, s.SlowUs = c.P, rapid.SampledFrom([]int{300, 2000}).Draw(t, "slowus")
			}
			if c.K == "remove" && rapid.Bool().Draw(t, "thengstop") {
				// graceful stop right behind a removal: items of the removed priority may still be with handlers
				s.Ctl = append(s.Ctl, Ctl{AfterUs: at, K: "gstop"})
				break
			}
			if c.K == "add" && rapid.Bool().Draw(t, "twin") {
				// a second AddInput for another priority at the same moment, from another goroutine
				s.Ctl = append(s.Ctl, Ctl{AfterUs: at, K: "add", P: c.P + 5, Cap: c.Cap})
			}
		}
		return s
	})
}
