package racel

import (
	"testing"

	"cqosverif/internal/evid"
)

// TestC20 executes free-running scenarios; the binary is built with -race by the driver.
func TestC20(t *testing.T) {
	evid.Run(t, evid.Prop[Script]{
		ID:   "C20",
		Rule: "free-running real-time scenarios (no bubble): N producers, H+1 handlers receiving and releasing, a control goroutine calling AddInput / RemoveInput / GracefulStop / Stop / cancel, consumers keeping and overwriting copy-mode slices, generated microsecond jitter, for every discipline of both versions; oracle = race detector; non-trivial = at least 3 goroutine roles touched the discipline and something was delivered; distinct = distinct script JSON (the interleaving itself is not pinned by the seed)",
		Gen:  Gen,
		Run: func(s Script) evid.Outcome {
			r := Execute(s)
			o := evid.Outcome{Classes: []string{s.Kind}, Summary: r}
			if r.TimedOut {
				o.Skip = "scenario did not finish within its real-time budget (not a race verdict)"
				return o
			}
			o.NonTrivial = r.Roles >= 3 && r.Delivered > 0
			return o
		},
	})
}
